// Component driver (C17-C20): calls the components the way the dictionaries do and logs inputs and
// outputs as ndjson events; TLC evaluates the definitions of IntCodecs / Codes / Succinct / RePairSpec
// over the trace (CompTrace.tla).  The driver computes no expected values.
//   comp vbyte   OUT seed tier      VByte encode/decode
//   comp logseq  OUT seed tier      LogSequence set/get for every width 1..64, save/load
//   comp dacvls  OUT seed tier      DAC_VLS built as RPDAC/HASHRPDAC build it, access, save/load
//   comp codes   OUT seed tier      HuTucker / Huffman code tables, StatCoder bit packing
//   comp bitseq  OUT seed tier      libcds BitSequenceRG/RRR/SDArray/DArray
//   comp wt      OUT seed tier      libcds WaveletTree / WaveletTreeNoptrs
//   comp repair  OUT seed tier      RePair(int*, len, maxchar): grammar + compacted sequence
#include <fcntl.h>
#include <functional>
#include <sys/wait.h>
#include <unistd.h>

#include <algorithm>
#include <cstdio>
#include <cstdlib>
#include <cstring>
#include <fstream>
#include <iostream>
#include <random>
#include <sstream>
#include <string>
#include <vector>

#define private public
#define protected public
#include "StringDictionary.h"
#include "RePair/RePair.h"
#include "HuTucker/HuTucker.h"
#include "Huffman/Huffman.h"
#include "utils/Coder/StatCoder.h"
#include "utils/Coder/DecodingTableBuilder.h"
#include "utils/DAC_VLS.h"
#include "utils/LogSequence.h"
#include "utils/VByte.h"
#include <cmath>
#include "Hash/HashUtils.h"
#include <BitSequenceDArray.h>
#include <BitSequenceRG.h>
#include <BitSequenceRRR.h>
#include <BitSequenceSDArray.h>
#include <Mapper.h>
#include <MapperNone.h>
#include <WaveletTree.h>
#include <WaveletTreeNoptrs.h>
#include <wt_coder_huff.h>
#undef private
#undef protected

using namespace cds_static;

static FILE *out;
static std::mt19937_64 rng;
static bool thorough = false;

static std::string limbs(unsigned long long v, int n = 0) {
  std::string r = "[";
  int k = 0;
  do {
    r += (k ? "," : "") + std::to_string((unsigned)(v & 0xffff));
    v >>= 16;
    k++;
  } while (v || k < n);
  return r + "]";
}
template <class T> static std::string arr(const T *p, size_t n) {
  std::string r = "[";
  for (size_t i = 0; i < n; i++) {
    if (i) r += ',';
    r += std::to_string((long long)p[i]);
  }
  return r + "]";
}

// every section runs in a forked child so that a crash is an event, not the end of the campaign
template <class F> static void section(const std::string &name, F f) {
  fflush(out);
  pid_t pid = fork();
  if (pid == 0) {
    alarm(60);
    int dn = open("/dev/null", 1);
    dup2(dn, 1);
    fprintf(out, "{\"e\":\"Reset\",\"sec\":\"%s\"}\n", name.c_str());
    fflush(out);
    f();
    fflush(out);
    _exit(0);
  }
  int st = 0;
  waitpid(pid, &st, 0);
  if (WIFSIGNALED(st)) {
    fprintf(out, "{\"e\":\"%s\",\"sig\":%d,\"sec\":\"%s\"}\n", WTERMSIG(st) == SIGALRM ? "timeout" : "crash", WTERMSIG(st), name.c_str());
    fflush(out);
  }
}

// ------------------------------------------------------------------------------------ VByte
static void vb_one(unsigned v) {
  unsigned char buf[16];
  memset(buf, 0x55, sizeof buf);
  unsigned k = VByte::encode(v, buf);
  unsigned dv = 0;
  unsigned k2 = VByte::decode(&dv, buf);
  fprintf(out, "{\"e\":\"VB\",\"v\":%s,\"bytes\":%s,\"enc\":%u,\"dv\":%s,\"dec\":%u}\n", limbs(v, 2).c_str(), arr(buf, k < 8 ? k : 8).c_str(), k,
          limbs(dv, 2).c_str(), k2);
}
static void do_vbyte() {
  section("vbyte-small", [] {
    unsigned lim = thorough ? (1u << 17) : (1u << 12);
    for (unsigned v = 0; v < lim; v++) vb_one(v);
  });
  section("vbyte-boundaries", [] {
    for (int k = 1; k <= 4; k++)
      for (int d = -64; d <= 64; d++) {
        vb_one((unsigned)((1ull << (7 * k)) + d));
        vb_one((unsigned)((1ull << (8 * k)) + d));
      }
    vb_one(0xffffffffu);
    vb_one(0x80000000u);
    vb_one(0x7fffffffu);
    for (int i = 0; i < (thorough ? 100000 : 3000); i++) vb_one((unsigned)rng());
  });
}

// ------------------------------------------------------------------------------------ LogSequence
static void do_logseq() {
  for (unsigned w = 1; w <= 64; w++) {
    section("logseq-w" + std::to_string(w), [w] {
      std::vector<size_t> ns = {1, 2, 3, 64 / w + 1, 128 / w + 2, 7, 33};
      if (thorough) ns.push_back(200);
      int id = 0;
      for (size_t n : ns) {
        LogSequence *ls = new LogSequence(w, n);
        fprintf(out, "{\"e\":\"LSNew\",\"id\":%d,\"w\":%u,\"n\":%zu}\n", id, w, n);
        size_t maxv = w == 64 ? ~(size_t)0 : (((size_t)1 << w) - 1);
        auto setf = [&](size_t i, size_t v) {
          ls->setField(i, v);
          fprintf(out, "{\"e\":\"LSSet\",\"id\":%d,\"i\":%zu,\"v\":%s}\n", id, i, limbs(v, 4).c_str());
        };
        auto getall = [&]() {
          for (size_t i = 0; i < n; i++) fprintf(out, "{\"e\":\"LSGet\",\"id\":%d,\"i\":%zu,\"v\":%s}\n", id, i, limbs(ls->getField(i), 4).c_str());
        };
        getall();                                     // fresh: all zero
        for (size_t i = 0; i < n; i++) setf(i, maxv);  // ascending, all ones
        getall();
        for (size_t i = n; i-- > 0;) setf(i, (i & 1) ? 0 : maxv);  // descending, alternating (overwrites)
        getall();
        for (size_t k = 0; k < 2 * n; k++) setf(rng() % n, rng() & maxv);  // random order, random values
        getall();
        std::stringstream ss(std::ios::in | std::ios::out | std::ios::binary);
        ls->save(ss);
        delete ls;
        ls = new LogSequence(ss);
        fprintf(out, "{\"e\":\"LSReload\",\"id\":%d,\"w\":%u,\"n\":%zu}\n", id, (unsigned)ls->getNumbits(), (size_t)ls->getNumberOfElements());
        getall();
        delete ls;
        id++;
      }
    });
  }
}

// ------------------------------------------------------------------------------------ DAC_VLS
static void dac_lists(const std::vector<std::vector<unsigned>> &L, unsigned w, int id) {
  // as the RPDAC / HASHRPDAC constructors: symbols of each sequence followed by a negative end mark;
  // length = total - 1; log_r = symbol width; max_seq_length = longest sequence
  std::vector<int> list;
  unsigned maxseq = 0;
  std::string lj = "[";
  for (size_t i = 0; i < L.size(); i++) {
    for (unsigned s : L[i]) list.push_back((int)s);
    list.push_back(-(int)(i + 1));
    maxseq = std::max<unsigned>(maxseq, L[i].size());
    lj += (i ? "," : "") + arr(L[i].data(), L[i].size());
  }
  lj += "]";
  fprintf(out, "{\"e\":\"DACBuild\",\"id\":%d,\"w\":%u,\"maxseq\":%u,\"lists\":%s}\n", id, w, maxseq, lj.c_str());
  fflush(out);
  DAC_VLS *d = new DAC_VLS(list.data(), list.size() - 1, w, maxseq);
  auto all = [&](const char *when) {
    for (size_t i = 1; i <= L.size(); i++) {
      uint *seq = nullptr;
      uint len = d->access(i, &seq);
      fprintf(out, "{\"e\":\"DACAccess\",\"id\":%d,\"when\":\"%s\",\"i\":%zu,\"len\":%u,\"seq\":%s}\n", id, when, i, len, arr(seq, len < 64 ? len : 64).c_str());
      delete[] seq;
    }
  };
  all("built");
  std::stringstream ss(std::ios::in | std::ios::out | std::ios::binary);
  d->save(ss);
  delete d;
  d = DAC_VLS::load(ss);
  all("loaded");
  delete d;
}
static void do_dacvls() {
  // exhaustive: all lists of <= 3 sequences of length 1..3 over 2-bit symbols 1..3 (quick: <= 2 sequences)
  int maxl = thorough ? 3 : 2;
  std::vector<std::vector<unsigned>> seqs;
  for (unsigned a = 1; a <= 3; a++) {
    seqs.push_back({a});
    for (unsigned b = 1; b <= 3; b++) {
      seqs.push_back({a, b});
      for (unsigned c = 1; c <= 3; c += 2) seqs.push_back({a, b, c});
    }
  }
  section("dacvls-exhaustive", [&] {
    int id = 0;
    std::vector<size_t> idx;
    std::function<void(int)> rec = [&](int depth) {
      if (!idx.empty()) {
        std::vector<std::vector<unsigned>> L;
        for (size_t k : idx) L.push_back(seqs[k]);
        dac_lists(L, 2, id++);
      }
      if (depth == maxl) return;
      for (size_t k = 0; k < seqs.size(); k += (thorough ? 1 : 2)) {
        idx.push_back(k);
        rec(depth + 1);
        idx.pop_back();
      }
    };
    rec(0);
  });
  section("dacvls-random", [&] {
    for (int t = 0; t < (thorough ? 300 : 40); t++) {
      unsigned w = 1 + rng() % 20;
      size_t n = 1 + rng() % (thorough ? 300 : 60);
      std::vector<std::vector<unsigned>> L(n);
      unsigned maxlen = 1 + rng() % 12;
      for (auto &s : L) {
        size_t len = 1 + rng() % maxlen;
        for (size_t i = 0; i < len; i++) s.push_back(1 + rng() % ((1u << w) - 1 ? (1u << w) - 1 : 1));
      }
      if (t % 3 == 0) L.back() = {L.back()[0]};          // last sequence of length 1
      if (t % 5 == 0) L[0] = std::vector<unsigned>(maxlen, 1);  // a maximum-length sequence first
      dac_lists(L, w, 1000 + t);
    }
  });
}

// ------------------------------------------------------------------------------------ codes
static std::string bitsj(unsigned code, unsigned bits) {
  std::string r = "[";
  for (unsigned i = 0; i < bits; i++) r += (i ? "," : "") + std::string(((bits - 1 - i) < 32 && (code >> (bits - 1 - i) & 1)) ? "1" : "0");
  return r + "]";
}
static void code_table(const char *kind, const std::vector<unsigned> &freq, int id, bool encode_tests) {
  std::vector<unsigned> f = freq;
  Codeword *cw;
  HuTucker *ht = nullptr;
  Huffman *hf = nullptr;
  if (std::string(kind) == "hutucker") {
    ht = new HuTucker(f.data());
    cw = ht->obtainCodewords();
  } else {
    hf = new Huffman(f.data());
    cw = hf->obtainCodewords();
  }
  std::string t = "[";
  for (int i = 0; i < 256; i++) t += (i ? "," : "") + bitsj(cw[i].codeword, cw[i].bits);
  t += "]";
  fprintf(out, "{\"e\":\"Code\",\"id\":%d,\"kind\":\"%s\",\"freq\":%s,\"table\":%s}\n", id, kind, arr(freq.data(), 256).c_str(), t.c_str());
  if (encode_tests) {
    StatCoder coder(cw);
    for (int k = 0; k < 12; k++) {
      size_t len = 1 + rng() % 9;
      std::vector<unsigned char> s(len + 1);
      for (size_t i = 0; i < len; i++) s[i] = 2 + rng() % 253;
      s[len] = 0;
      uint encLen = 0, offset = 0;
      unsigned char *e = coder.encodeString(s.data(), len + 1, &encLen, &offset);  // as locate() does: with the terminator
      fprintf(out, "{\"e\":\"Enc\",\"id\":%d,\"s\":%s,\"bytes\":%s,\"off\":%u}\n", id, arr(s.data(), len + 1).c_str(), arr(e, encLen).c_str(), offset);
      delete[] e;
    }
    // strings built around the longest codewords: alone (bit offset 0), doubled, and behind a prefix whose code
    // length is a multiple of 8 (the long codeword then starts exactly at a byte boundary inside the string)
    std::vector<int> order(253);
    for (int i = 0; i < 253; i++) order[i] = i + 2;
    std::stable_sort(order.begin(), order.end(), [&](int a, int b) { return cw[a].bits > cw[b].bits; });
    std::vector<std::vector<unsigned char>> pre;
    for (int a = 2; a < 255 && pre.size() < 2; a++)
      for (int b = 2; b < 255 && pre.size() < 2; b++)
        if ((cw[a].bits + cw[b].bits) % 8 == 0) pre.push_back({(unsigned char)a, (unsigned char)b});
    for (int k = 0; k < 4; k++) {
      unsigned char r = (unsigned char)order[k];
      std::vector<std::vector<unsigned char>> ss = {{r}, {r, r}, {(unsigned char)order[k + 4], r}};
      for (auto &pp : pre) ss.push_back({pp[0], pp[1], r, pp[0]});
      for (auto &s : ss) {
        s.push_back(0);
        uint encLen = 0, offset = 0;
        unsigned char *e = coder.encodeString(s.data(), s.size(), &encLen, &offset);
        fprintf(out, "{\"e\":\"Enc\",\"id\":%d,\"s\":%s,\"bytes\":%s,\"off\":%u}\n", id, arr(s.data(), s.size()).c_str(), arr(e, encLen).c_str(), offset);
        delete[] e;
      }
    }
  }
  delete[] cw;
  delete ht;
  delete hf;
}
// ------------------------------------------------------------------------------------ chunked decoding table
// The table is built the way the dictionaries build it (HASHHF style: every string encoded on its own, padded to a
// byte, encodeSymbol + insertDecodeableSubstr per symbol, insertEndingSubstr at the end) and every string is decoded
// back with processChunk from a buffer of exactly its encoded size.  One TDec event per string (at most 400 per
// table, the rest summarised in TDecSum): what was encoded, what came back, whether the decoder saw the end.
static void table_decode(const char *kind, const std::vector<unsigned> &freq, const std::vector<std::string> &strs, int id) {
  std::vector<unsigned> f = freq;
  DecodingTableBuilder *builder = new DecodingTableBuilder();
  if (std::string(kind) == "hutucker") {
    HuTucker *ht = new HuTucker(f.data());
    builder->initializeFromHuTucker(ht);
    delete ht;
  } else {
    Huffman *hf = new Huffman(f.data());
    builder->initializeFromHuffman(hf);
    delete hf;
  }
  Codeword *cw = builder->getCodewords();
  std::string t = "[";
  for (int i = 0; i < 256; i++) t += (i ? "," : "") + bitsj(cw[i].codeword, cw[i].bits);
  t += "]";
  fprintf(out, "{\"e\":\"Code\",\"id\":%d,\"kind\":\"%s\",\"freq\":%s,\"table\":%s}\n", id, kind, arr(freq.data(), 256).c_str(), t.c_str());
  fflush(out);
  uint maxlength = 0;
  for (auto &x : strs) maxlength = std::max<uint>(maxlength, x.size() + 1);
  StatCoder *coder = new StatCoder(cw);
  std::vector<std::string> encoded(strs.size());
  std::vector<uchar> tmp(6 * maxlength + 16);
  std::vector<uchar> textSubstr;
  std::vector<ushort> lenSubstr;
  for (size_t k = 0; k < strs.size(); k++) {
    uint bytes = 0, offset = 0;
    ushort ptrSubstr = 0;
    uint codeSubstr = 0;
    tmp[0] = 0;
    textSubstr.clear();
    lenSubstr.clear();
    const uchar *p = (const uchar *)strs[k].c_str();
    size_t i = 0;
    do {
      uchar symbol = p[i];
      bytes += coder->encodeSymbol(symbol, &tmp[bytes], &offset);
      i++;
      builder->insertDecodeableSubstr(symbol, &codeSubstr, &ptrSubstr, &textSubstr, &lenSubstr);
    } while (p[i - 1] != 0);
    if (offset > 0) bytes++;
    encoded[k].assign((char *)tmp.data(), bytes);
    if (textSubstr.size() > 0) {
      if (offset > 0) {
        codeSubstr = (codeSubstr << (8 - offset));
        ptrSubstr += (8 - offset);
      }
      if (ptrSubstr > TABLEBITSO) {
        codeSubstr = codeSubstr >> (ptrSubstr - TABLEBITSO);
        ptrSubstr = TABLEBITSO;
      }
      builder->insertEndingSubstr(&codeSubstr, &ptrSubstr, &textSubstr, &lenSubstr);
    }
  }
  DecodingTable *table = builder->getTable();
  size_t wrong = 0, shown = 0;
  long firstwrong = -1;
  std::vector<uchar> o(4 * maxlength + 64);
  for (size_t k = 0; k < strs.size(); k++) {
    std::fill(o.begin(), o.end(), 0xAA);
    ChunkScan chunk = {0, 0, (uchar *)encoded[k].data(), (uint)encoded[k].size(), o.data(), 0, 0, 1};
    uint guard = 0;
    bool ended = false;
    while (guard++ < 4 * maxlength + 8 && chunk.strLen < 4 * maxlength) {
      if (table->processChunk(&chunk)) {
        ended = true;
        break;
      }
    }
    bool ok = ended && chunk.strLen == strs[k].size() + 1 && memcmp(o.data(), strs[k].c_str(), strs[k].size() + 1) == 0;
    if (!ok) {
      wrong++;
      if (firstwrong < 0) firstwrong = (long)k;
    }
    if (shown < 400 && (strs.size() <= 400 || !ok || k % (strs.size() / 300 + 1) == 0)) {
      shown++;
      size_t ol = std::min<size_t>(chunk.strLen, strs[k].size() + 8);
      fprintf(out, "{\"e\":\"TDec\",\"id\":%d,\"k\":%zu,\"s\":%s,\"out\":%s,\"ended\":%d}\n", id, k, arr((const uchar *)strs[k].c_str(), strs[k].size() + 1).c_str(),
              arr(o.data(), ol).c_str(), ended ? 1 : 0);
    }
  }
  fprintf(out, "{\"e\":\"TDecSum\",\"id\":%d,\"n\":%zu,\"wrong\":%zu,\"first\":%ld,\"tablebytes\":%zu}\n", id, strs.size(), wrong, firstwrong, (size_t)table->getSize());
  // the same through a saved and re-loaded table ("all of this survives save / load")
  {
    std::stringstream ss(std::ios::in | std::ios::out | std::ios::binary);
    table->save(ss);
    DecodingTable *t2 = DecodingTable::load(ss);
    size_t wrong2 = 0;
    long first2 = -1;
    for (size_t k = 0; k < strs.size(); k++) {
      std::fill(o.begin(), o.end(), 0xAA);
      ChunkScan chunk = {0, 0, (uchar *)encoded[k].data(), (uint)encoded[k].size(), o.data(), 0, 0, 1};
      uint guard = 0;
      bool ended = false;
      while (guard++ < 4 * maxlength + 8 && chunk.strLen < 4 * maxlength) {
        if (t2->processChunk(&chunk)) {
          ended = true;
          break;
        }
      }
      bool ok = ended && chunk.strLen == strs[k].size() + 1 && memcmp(o.data(), strs[k].c_str(), strs[k].size() + 1) == 0;
      if (!ok) {
        if (wrong2 < 20) {
          size_t ol = std::min<size_t>(chunk.strLen, strs[k].size() + 8);
          fprintf(out, "{\"e\":\"TDec\",\"id\":%d,\"k\":%zu,\"when\":\"loaded\",\"s\":%s,\"out\":%s,\"ended\":%d}\n", id, k,
                  arr((const uchar *)strs[k].c_str(), strs[k].size() + 1).c_str(), arr(o.data(), ol).c_str(), ended ? 1 : 0);
        }
        wrong2++;
        if (first2 < 0) first2 = (long)k;
      }
    }
    fprintf(out, "{\"e\":\"TDecSum\",\"id\":%d,\"when\":\"loaded\",\"n\":%zu,\"wrong\":%zu,\"first\":%ld,\"tablebytes\":%zu}\n", id, strs.size(), wrong2, first2, (size_t)t2->getSize());
  }
  delete builder;
  delete coder;
}
static std::vector<unsigned> text_freqs(const std::vector<std::string> &strs) {
  std::vector<unsigned> f(256, 0);
  for (auto &x : strs) {
    for (unsigned char c : x) f[c]++;
    f[0]++;
  }
  for (auto &v : f)
    if (v == 0) v = 1;      // as the dictionaries do
  return f;
}
static void do_tabledec() {
  int id = 5000;
  auto both = [&](const std::vector<unsigned> &f, const std::vector<std::string> &strs, const std::string &name) {
    section("tabledec-" + name + "-hutucker", [&] { table_decode("hutucker", f, strs, id); });
    section("tabledec-" + name + "-huffman", [&] { table_decode("huffman", f, strs, id + 1); });
    id += 2;
  };
  // 1. Fibonacci-like frequencies over a..z (codewords of 15, 16 and 17 bits next to each other), words whose rare letters
  //    follow contexts that were indexed before (abx, aby, abz / mxa, mya, mza)
  {
    std::vector<unsigned> f(256, 1);
    unsigned long a = 1, b = 2;
    for (int i = 0; i < 26; i++) {
      f['z' - i] = (unsigned)b;
      unsigned long c = a + b;
      a = b;
      b = c;
    }
    f[0] = (unsigned)b;
    std::vector<std::string> w = {"aaaa", "aab", "abacab", "abc", "abx", "aby", "abz", "bad", "cab", "cafe", "dead", "deaf", "decade", "ebbed", "faced",
                                  "gabbed", "hedge", "jab", "kea", "mxa", "mya", "mza", "nag", "opal", "quack"};
    both(f, w, "fibonacci");
    // the same with the rare letters also at the start of a string (a chunk start registers them on their own)
    for (const char *x : {"x", "xx", "y", "yx", "z", "zz", "zzz"}) w.push_back(x);
    both(f, w, "fibonacci-starts");
    // every pair and triple of the six rarest letters behind a common context
    std::vector<std::string> v;
    for (const char *ctx : {"ab", "m", "de", ""})
      for (char a : std::string("uvwxyz")) {
        v.push_back(std::string(ctx) + a);
        for (char b : std::string("uvwxyz")) v.push_back(std::string(ctx) + a + b);
      }
    std::sort(v.begin(), v.end());
    v.erase(std::unique(v.begin(), v.end()), v.end());
    both(f, v, "fibonacci-pairs");
  }
  // 2. geometric letter frequencies (rarest letters get 17+ bits): the long codeword at every bit offset 0..16
  {
    const char *letters = "aeiosnrtlcdupmghbyfvkwzjqxQX7";
    std::vector<unsigned> f(256, 1);
    unsigned v = 1u << 27;
    for (const char *c = letters; *c; c++) {
      f[(unsigned char)*c] = v;
      v = v > 2 ? v / 2 : 1;
    }
    f[0] = 1u << 26;
    std::vector<std::string> w;
    const char *pre[] = {"", "a", "ae", "aea", "aeae", "s", "sn", "as", "aes", "aesn", "i", "ii", "iii"};
    for (const char *p : pre)
      for (const char *r : {"Q", "X", "7", "x", "q"}) {
        w.push_back(std::string(p) + r + "santiago");
        w.push_back(std::string(p) + r);
        w.push_back(std::string(p) + r + r);
      }
    std::sort(w.begin(), w.end());
    w.erase(std::unique(w.begin(), w.end()), w.end());
    both(f, w, "geometric");
  }
  // 2b. one byte with a 1-bit codeword and one with a 2-bit codeword: a chunk of fourteen 1-bit symbols and one 2-bit
  //     symbol is the table entry "15 symbols in 16 bits" (info byte 0xFF, the last entry of the entry table)
  {
    std::vector<unsigned> f(256, 1);
    f['a'] = 1u << 20;
    f['b'] = 1u << 18;
    f[0] = 1u << 16;
    std::vector<std::string> w;
    for (int n = 1; n <= 300; n += (n < 40 ? 1 : 13)) {
      w.push_back(std::string(n, 'a'));
      w.push_back(std::string(n, 'a') + "b");
      w.push_back(std::string(n, 'a') + "ba");
      w.push_back("b" + std::string(n, 'a'));
    }
    std::sort(w.begin(), w.end());
    w.erase(std::unique(w.begin(), w.end()), w.end());
    both(f, w, "dominant");
  }
  // 3. random corpora, code from the corpus' own symbol counts
  for (int t = 0; t < (thorough ? 30 : 6); t++) {
    std::vector<std::string> w;
    int sigma = 2 + rng() % (t % 2 ? 60 : 6);
    int n = 5 + rng() % (thorough ? 400 : 80);
    for (int i = 0; i < n; i++) {
      std::string x;
      int len = 1 + rng() % (t % 3 == 2 ? 40 : 9);
      for (int j = 0; j < len; j++) x += (char)(40 + (rng() % 4 ? rng() % sigma : rng() % 3));
      w.push_back(x);
    }
    std::sort(w.begin(), w.end());
    w.erase(std::unique(w.begin(), w.end()), w.end());
    both(text_freqs(w), w, "random" + std::to_string(t));
  }
  // 4. a corpus whose table stream exceeds 64 KB (tens of thousands of distinct chunk substrings)
  {
    std::vector<std::string> w;
    int n = thorough ? 60000 : 40000;
    for (int i = 0; i < n; i++) {
      std::string x;
      int len = 6 + rng() % 14;
      // skewed symbol distribution (short codewords for the frequent symbols): a 16-bit chunk then decodes to anything
      // from one to eight symbols, which is what makes the number of distinct chunk substrings large
      for (int j = 0; j < len; j++) {
        int k = 0;
        while (k < 45 && rng() % 4 != 0) k++;
        x += (char)(48 + k);
      }
      w.push_back(x);
    }
    std::sort(w.begin(), w.end());
    w.erase(std::unique(w.begin(), w.end()), w.end());
    both(text_freqs(w), w, "large");
  }
}

static void do_codes() {
  int id = 0;
  auto both = [&](const std::vector<unsigned> &f, const std::string &name) {
    section("code-" + name, [&] {
      code_table("hutucker", f, id, true);
      code_table("huffman", f, id + 1, true);
    });
    id += 2;
  };
  std::vector<unsigned> f(256, 1);
  both(f, "uniform");
  for (int i = 0; i < 256; i++) f[i] = 1 + (i % 7) * (i % 3);
  both(f, "mixed");
  for (int i = 0; i < 256; i++) f[i] = 1;
  f['a'] = 1000000;
  both(f, "dominant");
  {  // Fibonacci-like: forces codewords longer than the 16-bit chunk
    std::vector<unsigned> g(256, 1);
    unsigned a = 1, b = 1;
    for (int i = 2; i < 40; i++) {
      g[i] = a;
      unsigned c = a + b;
      a = b;
      b = c;
    }
    both(g, "fibonacci");
    std::reverse(g.begin(), g.end());
    both(g, "fibonacci-rev");
  }
  // many ties: small counts only (as the dictionaries give them after zeros are replaced by ones), and explicit
  // patterns of equal small counts separated by an unused byte and followed by a heavier one, at several positions
  for (int t = 0; t < (thorough ? 80 : 14); t++) {
    static const unsigned small[] = {1, 1, 1, 2, 3, 5};
    std::vector<unsigned> g(256, 1);
    for (int i = 0; i < 256; i++) g[i] = small[rng() % 6];
    both(g, "ties" + std::to_string(t));
  }
  for (int t = 0; t < (thorough ? 24 : 6); t++) {
    static const unsigned pat[3][7] = {{3, 1, 3, 1, 3, 1, 5}, {2, 1, 2, 1, 3, 1, 1}, {3, 1, 3, 1, 5, 2, 2}};
    std::vector<unsigned> g(256, 1);
    int at = 2 + (t * 37) % 240;
    for (int i = 0; i < 7; i++) g[at + i] = pat[t % 3][i];
    both(g, "tiepattern" + std::to_string(t));
  }
  for (int t = 0; t < (thorough ? 60 : 8); t++) {
    std::vector<unsigned> g(256, 1);
    int mode = t % 4;
    for (int i = 0; i < 256; i++) {
      if (mode == 0) g[i] = 1 + rng() % 1000;
      else if (mode == 1) g[i] = 1 + ((rng() % 10) ? 0 : rng() % 100000);
      else if (mode == 2) g[i] = 1u << (rng() % 20);
      else g[i] = 1 + (i < 100 ? rng() % 50 : 0);
    }
    both(g, "random" + std::to_string(t));
  }
}

// ------------------------------------------------------------------------------------ libcds bit sequences
static void bs_queries(BitSequence *b, const std::vector<int> &bits, int id, const char *when) {
  size_t n = bits.size(), ones = 0;
  for (int x : bits) ones += x;
  std::string a, r1, r0, s1, s0;
  for (size_t i = 0; i < n; i++) {
    a += (i ? "," : "") + std::to_string((int)b->access(i));
    r1 += (i ? "," : "") + std::to_string(b->rank1(i));
    r0 += (i ? "," : "") + std::to_string(b->rank0(i));
  }
  for (size_t j = 1; j <= ones; j++) s1 += (j > 1 ? "," : "") + std::to_string(b->select1(j));
  for (size_t j = 1; j <= n - ones; j++) s0 += (j > 1 ? "," : "") + std::to_string(b->select0(j));
  fprintf(out, "{\"e\":\"BSQ\",\"id\":%d,\"when\":\"%s\",\"len\":%zu,\"ones\":%zu,\"access\":[%s],\"rank1\":[%s],\"rank0\":[%s],\"select1\":[%s],\"select0\":[%s]}\n", id,
          when, (size_t)b->getLength(), (size_t)b->countOnes(), a.c_str(), r1.c_str(), r0.c_str(), s1.c_str(), s0.c_str());
}
static void bs_one(const std::vector<int> &bits, const std::string &impl, unsigned param, int id) {
  size_t n = bits.size();
  std::vector<uint> words(n / 32 + 2, 0);
  for (size_t i = 0; i < n; i++)
    if (bits[i]) words[i / 32] |= 1u << (i % 32);
  fprintf(out, "{\"e\":\"BSBuild\",\"id\":%d,\"impl\":\"%s\",\"param\":%u,\"bits\":%s}\n", id, impl.c_str(), param, arr(bits.data(), n).c_str());
  fflush(out);
  BitSequence *b = nullptr;
  if (impl == "RG") b = new BitSequenceRG(words.data(), n, param);
  else if (impl == "RRR") b = new BitSequenceRRR(words.data(), n, param);
  else if (impl == "SDArray") b = new BitSequenceSDArray(words.data(), n);
  else b = new BitSequenceDArray(words.data(), n);
  bs_queries(b, bits, id, "built");
  std::stringstream ss(std::ios::in | std::ios::out | std::ios::binary);
  b->save(ss);
  delete b;
  b = BitSequence::load(ss);
  if (b) {
    bs_queries(b, bits, id, "loaded");
    delete b;
  } else
    fprintf(out, "{\"e\":\"BSLoadNull\",\"id\":%d}\n", id);
}
static void do_bitseq() {
  struct Impl {
    std::string name;
    std::vector<unsigned> params;
  };
  // RRR: even sampling rates as the dictionaries use them (16, 32, 128) and odd ones (3, 5, 33), whose
  // class-sequence nibbles are aligned differently; the odd ones are driven with the boundary shapes only
  std::vector<Impl> impls = {{"RG", {2, 4, 20}}, {"RRR", {16, 32, 128, 3, 5, 33}}, {"SDArray", {0}}, {"DArray", {0}}};
  int maxlen = thorough ? 12 : 9;
  for (auto &im : impls)
    for (unsigned prm : im.params) {
      const bool odd = im.name == "RRR" && (prm & 1);
      if (!odd || thorough) section("bitseq-" + im.name + "-" + std::to_string(prm) + "-exhaustive", [&] {
        int id = 0;
        for (int n = 1; n <= maxlen; n++)
          for (unsigned m = 0; m < (1u << n); m++) {
            std::vector<int> bits(n);
            int ones = 0;
            for (int i = 0; i < n; i++) ones += bits[i] = (m >> i) & 1;
            // DArray / SDArray need at least one set bit to be built at all
            if ((im.name == "DArray" || im.name == "SDArray") && ones == 0) continue;
            bs_one(bits, im.name, prm, id++);
          }
      });
      {
        std::vector<int> lens = {31, 32, 33, 63, 64, 65, 127, 128, 129, 255, 256, 257};
        // around multiples of the sampling rate (RG: factor*32 bits per superblock; RRR: 15*rate bits)
        for (unsigned s : {prm * 32, prm * 32 + 1, prm * 15, prm * 15 + 1, prm * 30 + 1})
          if (s > 0 && s < (thorough ? 4000u : 700u)) lens.push_back((int)s);
        if (im.name == "RRR")      // positions in the second and third sample group (15 * rate bits each)
          for (unsigned s : {15 * (prm + 1) + 20, 30 * (prm + 1) + 20, 45 * prm + 7})
            if (s < (thorough ? 8000u : 1300u)) lens.push_back((int)s);
        int id = 100000;
        for (int n : lens) {
          std::vector<int> z(n, 0), o(n, 1), alt(n), run(n, 0), rnd(n), sparse(n, 0), one(n, 0);
          for (int i = 0; i < n; i++) {
            alt[i] = i & 1;
            run[i] = (i >= n / 3 && i < 2 * n / 3);
            rnd[i] = rng() & 1;
            sparse[i] = (rng() % 17) == 0;
          }
          one[n - 1] = 1;
          sparse[0] = 1;
          std::vector<std::pair<std::string, std::vector<int>>> vs = {{"ones", o}, {"alt", alt}, {"run", run}, {"rnd", rnd}, {"sparse", sparse}, {"lastone", one}};
          if (im.name == "RG" || im.name == "RRR") vs.push_back({"zeros", z});
          for (auto &v : vs) {
            int cnt1 = 0;
            for (int b : v.second) cnt1 += b;
            if ((im.name == "DArray" || im.name == "SDArray") && cnt1 == 0) continue;  // need at least one set bit to be built
            int myid = id++;
            section("bitseq-" + im.name + "-" + std::to_string(prm) + "-shape-" + v.first + "-" + std::to_string(n), [&] { bs_one(v.second, im.name, prm, myid); });
          }
        }
      }
    }
}

// ------------------------------------------------------------------------------------ wavelet trees
static void wt_one(const std::vector<uint> &sy, const std::string &impl, int id) {
  size_t n = sy.size();
  fprintf(out, "{\"e\":\"SeqBuild\",\"id\":%d,\"impl\":\"%s\",\"syms\":%s}\n", id, impl.c_str(), arr(sy.data(), n).c_str());
  fflush(out);
  std::vector<uint> copy = sy;
  Sequence *s = nullptr;
  Mapper *am = new MapperNone();
  // bitmaps inside the tree: RG(4) for "WT" / "WTNoptrs", RRR(16) for the "-RRR" variants (as XBW and FMINDEX use them)
  const bool rrr = impl.size() > 4 && impl.substr(impl.size() - 4) == "-RRR";
  BitSequenceBuilder *bsb = rrr ? (BitSequenceBuilder *)new BitSequenceBuilderRRR(16) : (BitSequenceBuilder *)new BitSequenceBuilderRG(4);
  if (impl == "WT" || impl == "WT-RRR") {
    wt_coder *wc = new wt_coder_huff(copy.data(), n, am);
    s = new WaveletTree(copy.data(), n, wc, bsb, am, false);
  } else
    s = new WaveletTreeNoptrs(copy.data(), n, bsb, am, false);
  auto q = [&](Sequence *x, const char *when) {
    uint maxc = 0;
    for (uint c : sy) maxc = std::max(maxc, c);
    std::string a, rk = "[", sl = "[";
    // the built structure is asked access first; the loaded one rank / select first, smallest symbol first
    // (a structure that keeps state between calls must not depend on what was asked before)
    const bool access_first = std::string(when) == "built";
    if (access_first)
      for (size_t i = 0; i < n; i++) a += (i ? "," : "") + std::to_string(x->access(i));
    bool fr = true, fs = true;
    for (uint c = 0; c <= maxc; c++) {
      size_t cnt = 0;
      for (uint y : sy) cnt += y == c;
      if (cnt == 0) continue;   // symbols that do not occur are outside the alphabet of the structure
      for (size_t i = 0; i < n; i++) {
        rk += (fr ? "" : ",") + std::string("[") + std::to_string(c) + "," + std::to_string(i) + "," + std::to_string(x->rank(c, i)) + "]";
        fr = false;
      }
      for (size_t j = 1; j <= cnt; j++) {
        sl += (fs ? "" : ",") + std::string("[") + std::to_string(c) + "," + std::to_string(j) + "," + std::to_string(x->select(c, j)) + "]";
        fs = false;
      }
    }
    if (!access_first)
      for (size_t i = 0; i < n; i++) a += (i ? "," : "") + std::to_string(x->access(i));
    fprintf(out, "{\"e\":\"SeqQ\",\"id\":%d,\"when\":\"%s\",\"access\":[%s],\"rank\":%s],\"select\":%s]}\n", id, when, a.c_str(), rk.c_str(), sl.c_str());
  };
  q(s, "built");
  std::stringstream ss(std::ios::in | std::ios::out | std::ios::binary);
  s->save(ss);
  delete s;
  s = Sequence::load(ss);
  if (s) {
    q(s, "loaded");
    delete s;
  } else
    fprintf(out, "{\"e\":\"SeqLoadNull\",\"id\":%d}\n", id);
}
static void do_wt() {
  for (std::string impl : {"WT", "WTNoptrs", "WT-RRR", "WTNoptrs-RRR"}) {
    const bool variant = impl.find("-RRR") != std::string::npos;
    section("wt-" + impl + "-exhaustive", [&] {
      int id = 0;
      int maxn = thorough ? 6 : (variant ? 4 : 5);
      for (int n = 1; n <= maxn; n++) {
        long total = 1;
        for (int i = 0; i < n; i++) total *= 3;
        for (long m = 0; m < total; m++) {
          std::vector<uint> sy(n);
          long x = m;
          for (int i = 0; i < n; i++) {
            sy[i] = (impl.substr(0, 3) == "WT-" || impl == "WT" ? 0 : 1) + x % 3;      // the pointer-based tree (Huffman shaped) also gets symbol 0
            x /= 3;
          }
          wt_one(sy, impl, id++);
        }
      }
    });
    section("wt-" + impl + "-random", [&] {
      int id = 100000;
      for (int t = 0; t < (thorough ? 60 : 10); t++) {
        size_t n = 1 + rng() % 300;
        uint sigma = 1 + rng() % (t % 2 ? 200 : 6);
        std::vector<uint> sy(n);
        const uint lo = ((impl == "WT" || impl == "WT-RRR") && (t % 3) != 2) ? 0 : 1;
        for (auto &c : sy) c = lo + rng() % sigma;
        if (lo == 0 && n > 3) sy[0] = sy[n / 2] = 0;     // symbol 0 present and not the rarest
        wt_one(sy, impl, id++);
      }
    });
  }
}

// ------------------------------------------------------------------------------------ Re-Pair
static void rp_one(const std::vector<int> &seq, int id) {
  std::vector<int> a = seq;
  int maxc = 0;
  for (int c : seq) maxc = std::max(maxc, c);
  fprintf(out, "{\"e\":\"RPIn\",\"id\":%d,\"seq\":%s}\n", id, arr(seq.data(), seq.size()).c_str());
  fflush(out);
  RePair *rp = new RePair(a.data(), a.size(), (uchar)maxc);
  std::string rj = "[";
  for (uint64_t i = 0; i < rp->rules; i++)
    rj += (i ? "," : "") + std::string("[") + std::to_string(rp->G->getField(2 * i)) + "," + std::to_string(rp->G->getField(2 * i + 1)) + "]";
  rj += "]";
  fprintf(out, "{\"e\":\"RPOut\",\"id\":%d,\"terminals\":%llu,\"nrules\":%llu,\"bits\":%u,\"rules\":%s,\"array\":%s}\n", id, (unsigned long long)rp->terminals,
          (unsigned long long)rp->rules, rp->getBits(), rj.c_str(), arr(a.data(), a.size()).c_str());
  // save / load of the grammar (loadNoSeq: the grammar without a sequence, as RPFC / RPHTFC store it)
  std::stringstream ss(std::ios::in | std::ios::out | std::ios::binary);
  rp->save(ss);
  RePair *r2 = RePair::loadNoSeq(ss);
  std::string r2j = "[";
  for (uint64_t i = 0; i < r2->rules; i++)
    r2j += (i ? "," : "") + std::string("[") + std::to_string(r2->G->getField(2 * i)) + "," + std::to_string(r2->G->getField(2 * i + 1)) + "]";
  r2j += "]";
  fprintf(out, "{\"e\":\"RPReload\",\"id\":%d,\"terminals\":%llu,\"nrules\":%llu,\"rules\":%s}\n", id, (unsigned long long)r2->terminals,
          (unsigned long long)r2->rules, r2j.c_str());
  delete r2;
  delete rp;
}
static void do_repair() {
  section("repair-exhaustive", [] {
    // all sequences over {1,2,3} with 0 as terminator, ending in 0, of length <= L
    int L = thorough ? 8 : 6, id = 0;
    for (int n = 2; n <= L; n++) {
      long total = 1;
      for (int i = 0; i < n - 1; i++) total *= 4;
      for (long m = 0; m < total; m++) {
        std::vector<int> s(n);
        long x = m;
        bool ok = true;
        for (int i = 0; i < n - 1; i++) {
          s[i] = x % 4;
          x /= 4;
        }
        s[n - 1] = 0;
        if (s[0] == 0) ok = false;                                   // no empty first string
        for (int i = 1; i < n; i++)
          if (s[i] == 0 && s[i - 1] == 0) ok = false;                // no empty strings
        if (ok) rp_one(s, id++);
      }
    }
  });
  section("repair-shapes", [] {
    int id = 100000;
    auto text = [&](std::vector<std::string> v) {
      std::vector<int> s;
      for (auto &x : v) {
        for (unsigned char c : x) s.push_back(c);
        s.push_back(0);
      }
      return s;
    };
    rp_one(text({"abcdefgh"}), id++);                                   // one string, no repeated pair
    rp_one(text({"aaaaaaaaaaaaaaaaaaaaaaaaaaaaaaaaaaaaaaaaaaaaaaaa"}), id++);  // a run of one symbol
    rp_one(text({"abababababababababababab", "abababab", "babababa"}), id++);  // deep rules
    rp_one(text({"a", "a", "a", "a", "a", "a", "a", "a"}), id++);       // pairs only across terminators
    rp_one(text({"ab", "ab", "ab", "ab", "ab"}), id++);
    rp_one(text({"x"}), id++);
    for (int t = 0; t < (thorough ? 200 : 30); t++) {
      std::vector<std::string> v;
      size_t n = 1 + rng() % 40;
      for (size_t i = 0; i < n; i++) {
        std::string s;
        size_t len = 1 + rng() % 20;
        for (size_t k = 0; k < len; k++) s += (char)(2 + rng() % (t % 2 ? 3 : 250));
        v.push_back(s);
      }
      rp_one(text(v), id++);
    }
  });
}

// ------------------------------------------------------------------------------------ hash table sizes
static void do_hashutil() {
  section("hashutil-nearest-prime", [] {
    size_t lim = thorough ? 20000 : 3000;
    for (size_t n = 1; n <= lim; n++) fprintf(out, "{\"e\":\"NP\",\"n\":%zu,\"r\":%zu}\n", n, nearest_prime(n));
  });
}

int main(int argc, char **argv) {
  if (argc < 5) return 2;
  std::string what = argv[1];
  out = fopen(argv[2], "w");
  rng.seed(atoll(argv[3]));
  thorough = std::string(argv[4]) == "thorough";
  if (what == "vbyte") do_vbyte();
  else if (what == "logseq") do_logseq();
  else if (what == "dacvls") do_dacvls();
  else if (what == "codes") do_codes();
  else if (what == "tabledec") do_tabledec();
  else if (what == "bitseq") do_bitseq();
  else if (what == "wt") do_wt();
  else if (what == "repair") do_repair();
  else if (what == "hashutil") do_hashutil();
  fclose(out);
  return 0;
}
