// Drives the real StringDictionaryHASHRPDACBlocks constructor.
//   blocks_harness explore INPUT OVERHEAD CUT THREADS PB MAXRUNS OUT   scheduler, bounded-preemption DFS
//   blocks_harness random  INPUT OVERHEAD CUT THREADS SEED RUNS OUT    scheduler, seeded random schedules
//   blocks_harness free    INPUT OVERHEAD CUT THREADS RUNS OUT         real threads, no scheduler
// INPUT: one member per line, hex encoded, already sorted.  Every execution contributes a Reset
// event (with the input, so that TLC can apply the cut rule), the sync-level trace (scheduler
// modes) and a Built event: number of parts, starting indexes, cut samples, completeness of the
// slots and a digest of the saved image.
#include <sys/wait.h>
#include <unistd.h>

#include <condition_variable>
#include <cstdio>
#include <cstdlib>
#include <cstring>
#include <fstream>
#include <functional>
#include <iostream>
#include <mutex>
#include <sstream>
#include <string>
#include <vector>

#define private public
#define protected public
#include "StringDictionaryHASHRPDACBlocks.h"
#undef private
#undef protected
#include "parallel/Worker.hpp"
#include "sched.h"

// Schedule perturbation from outside the library (free mode, BLOCKS_PERTURB=1): the thread that calls the
// constructor (the producer) sleeps briefly whenever it frees a buffer, e.g. the old storage of a vector that
// has just grown.  With correct locking nothing can be observed; a producer that touches shared containers
// without the constructor's mutex gets its window widened from microseconds to a millisecond.
#if !defined(__SANITIZE_THREAD__) && !defined(__SANITIZE_ADDRESS__)
#include <atomic>
#include <new>
static std::atomic<int> g_perturb{0};   // remaining sleeps
static pthread_t g_prod;
// Only sized deallocations of 64 bytes or more are delayed (the storage a std::vector leaves behind when it
// grows): delaying every free would slow the producer so much that no worker is ever busy when it matters.
static inline void perturbed_free(void *p, std::size_t n) {
  if (n >= 64 && g_perturb.load(std::memory_order_relaxed) > 0 && pthread_equal(pthread_self(), g_prod)) {
    g_perturb.fetch_sub(1, std::memory_order_relaxed);
    usleep(1500);
  }
  free(p);
}
void operator delete(void *p) noexcept { perturbed_free(p, 0); }
void operator delete(void *p, std::size_t n) noexcept { perturbed_free(p, n); }
void operator delete[](void *p) noexcept { perturbed_free(p, 0); }
void operator delete[](void *p, std::size_t n) noexcept { perturbed_free(p, 0 * n); }
#define HAVE_PERTURB 1
#endif

struct libcsd_verif_access {
  static void name_all(WorkerPool &p) {
    ds::name(p.shared_mutex.native_handle(), "shared");
    ds::name(p.queue.mutex.native_handle(), "qm");
    ds::name(p.queue_cv.native_handle(), "cv");
    for (size_t i = 0; i < p.workers.size(); i++) ds::name(p.workers[i]->mutex_stop.native_handle(), "stop" + std::to_string(i + 1));
  }
};
static void blocks_hook(void *pool, void *m, void *cv) {
  libcsd_verif_access::name_all(*(WorkerPool *)pool);
  ds::name(((std::mutex *)m)->native_handle(), "m");
  ds::name(((std::condition_variable *)cv)->native_handle(), "cv2");
}

static std::vector<std::string> g_S;
static int g_pipe = -1;
static std::string g_free_trace;
static bool g_sched = false;

static void wr(const void *p, size_t n) {
  const char *c = (const char *)p;
  while (n) {
    ssize_t k = write(g_pipe, c, n);
    if (k <= 0) _exit(3);
    c += k;
    n -= k;
  }
}
static void report_and_exit() {
  auto &d = ds::decisions();
  uint32_t n = d.size();
  wr(&n, 4);
  if (n) wr(d.data(), n * sizeof(ds::Decision));
  uint32_t dv = ds::diverged();
  wr(&dv, 4);
  const std::string &t = g_sched ? ds::trace() : g_free_trace;
  uint32_t l = t.size();
  wr(&l, 4);
  wr(t.data(), l);
  _exit(0);
}

static std::string digest(const std::string &b) {
  uint64_t h1 = 1469598103934665603ULL, h2 = 0x9e3779b97f4a7c15ULL;
  for (unsigned char c : b) {
    h1 = (h1 ^ c) * 1099511628211ULL;
    h2 = (h2 + c) * 0xff51afd7ed558ccdULL;
    h2 ^= h2 >> 29;
  }
  char buf[40];
  snprintf(buf, sizeof buf, "%016llx%016llx", (unsigned long long)h1, (unsigned long long)h2);
  return buf;
}
static std::string bytes_json(const std::string &s) {
  std::string r = "[";
  for (size_t i = 0; i < s.size(); i++) r += (i ? "," : "") + std::to_string((unsigned char)s[i]);
  return r + "]";
}

static void build(int overhead, unsigned long cut, int threads) {
  size_t total = 0;
  for (auto &s : g_S) total += s.size() + 1;
  unsigned char *buf = new unsigned char[total];
  size_t p = 0;
  for (auto &s : g_S) {
    memcpy(buf + p, s.c_str(), s.size() + 1);
    p += s.size() + 1;
  }
  auto *it = new IteratorDictStringPlain(buf, total);
#ifdef HAVE_PERTURB
  if (!g_sched && getenv("BLOCKS_PERTURB")) {
    g_prod = pthread_self();
    g_perturb = 400;
  }
#endif
  StringDictionaryHASHRPDACBlocks *d = new StringDictionaryHASHRPDACBlocks(it, total, overhead, cut, threads);
#ifdef HAVE_PERTURB
  g_perturb = 0;
#endif
  std::string e = "\"e\":\"Built\",\"threads\":" + std::to_string(threads) + ",\"nparts\":" + std::to_string(d->parts.size());
  bool complete = true;
  for (auto *q : d->parts)
    if (!q) complete = false;
  e += ",\"complete\":" + std::string(complete ? "1" : "0") + ",\"n\":" + std::to_string(d->numElements()) + ",\"starts\":[";
  for (size_t i = 0; i < d->starting_indexes.size(); i++) e += (i ? "," : "") + std::to_string(d->starting_indexes[i]);
  e += "],\"samples\":[";
  for (size_t i = 0; i < d->cut_samples.size(); i++) e += (i ? "," : "") + bytes_json(d->cut_samples[i]);
  e += "]";
  if (complete) {
    std::stringstream ss(std::ios::in | std::ios::out | std::ios::binary);
    d->save(ss);
    std::string img = ss.str();
    e += ",\"bytes\":" + std::to_string(img.size()) + ",\"digest\":\"" + digest(img) + "\"";
  } else
    e += ",\"bytes\":0,\"digest\":\"incomplete\"";
  if (g_sched) ds::event(e);
  else g_free_trace += "{" + e + ",\"t\":0}\n";
  delete d;
}

struct RunResult {
  std::vector<ds::Decision> dec;
  bool diverged = false, timeout = false, crashed = false;
  std::string trace;
};

static RunResult run_child(int overhead, unsigned long cut, int threads, bool sched, const std::vector<int> &prefix, ds::Policy pol, unsigned seed) {
  int fd[2];
  if (pipe(fd)) exit(2);
  pid_t pid = fork();
  if (pid == 0) {
    close(fd[0]);
    g_pipe = fd[1];
    g_sched = sched;
    alarm(60);
    // the dictionary constructors print notices on stdout
    if (!freopen("/dev/null", "w", stdout)) _exit(4);
    if (sched) {
      libcsd_verif_blocks_hook = blocks_hook;
      ds::set_deadlock_handler(report_and_exit);
      ds::init(prefix, pol, seed, true);
    }
    build(overhead, cut, threads);
    if (sched) ds::finish();
    report_and_exit();
  }
  close(fd[1]);
  std::string buf;
  char tmp[65536];
  ssize_t k;
  while ((k = read(fd[0], tmp, sizeof tmp)) > 0) buf.append(tmp, k);
  close(fd[0]);
  int st = 0;
  waitpid(pid, &st, 0);
  RunResult r;
  if (WIFSIGNALED(st)) {
    if (WTERMSIG(st) == SIGALRM) r.timeout = true;
    else r.crashed = true;
    return r;
  }
  size_t p = 0;
  auto rd32 = [&](uint32_t &v) {
    if (p + 4 > buf.size()) return false;
    memcpy(&v, buf.data() + p, 4);
    p += 4;
    return true;
  };
  uint32_t n, dv, l;
  if (!rd32(n)) {
    r.crashed = true;
    return r;
  }
  r.dec.resize(n);
  if (n) memcpy(r.dec.data(), buf.data() + p, n * sizeof(ds::Decision));
  p += n * sizeof(ds::Decision);
  rd32(dv);
  r.diverged = dv;
  rd32(l);
  r.trace.assign(buf.data() + p, l);
  return r;
}

static std::string sched_str(const std::vector<ds::Decision> &d) {
  std::string s;
  for (size_t i = 0; i < d.size(); i++) s += (i ? "," : "") + std::to_string(d[i].chosen);
  return s;
}

static std::string g_input_json;
static void emit(FILE *out, int overhead, unsigned long cut, int threads, const char *mode, const RunResult &r, long run) {
  long nparts = 0;
  size_t p = r.trace.rfind("\"nparts\":");
  if (p != std::string::npos) nparts = atol(r.trace.c_str() + p + 9);
  fprintf(out, "{\"e\":\"Reset\",\"run\":%ld,\"mode\":\"%s\",\"nw\":%d,\"nt\":%ld,\"client\":\"P2\",\"overhead\":%d,\"cut\":%lu,\"threads\":%d,\"S\":%s}\n", run,
          mode, threads, nparts, overhead, cut, threads, g_input_json.c_str());
  fputs(r.trace.c_str(), out);
  if (r.timeout) fprintf(out, "{\"e\":\"Timeout\"}\n");
  if (r.crashed) fprintf(out, "{\"e\":\"Crash\"}\n");
  fprintf(out, "{\"e\":\"End\",\"diverged\":%d,\"schedule\":\"%s\"}\n", r.diverged ? 1 : 0, sched_str(r.dec).c_str());
}

static int hexv(char c) { return c <= '9' ? c - '0' : (c | 32) - 'a' + 10; }

int main(int argc, char **argv) {
  if (argc < 7) {
    fprintf(stderr, "usage: see source\n");
    return 2;
  }
  std::string mode = argv[1];
  std::ifstream in(argv[2]);
  std::string line;
  g_input_json = "[";
  while (std::getline(in, line)) {
    if (line.empty()) continue;
    std::string s;
    for (size_t i = 0; i + 1 < line.size(); i += 2) s += (char)(hexv(line[i]) * 16 + hexv(line[i + 1]));
    g_input_json += (g_S.empty() ? "" : ",") + bytes_json(s);
    g_S.push_back(s);
  }
  g_input_json += "]";
  int overhead = atoi(argv[3]);
  unsigned long cut = strtoul(argv[4], 0, 10);
  int threads = atoi(argv[5]);
  if (mode == "free") {
    long runs = atol(argv[6]);
    FILE *out = fopen(argv[7], "w");
    for (long i = 0; i < runs; i++) emit(out, overhead, cut, threads, "free", run_child(overhead, cut, threads, false, {}, ds::POL_DEFAULT, 1), i);
    fclose(out);
    printf("{\"runs\":%ld}\n", runs);
    return 0;
  }
  if (mode == "random") {
    unsigned seed = atoi(argv[6]);
    long runs = atol(argv[7]);
    FILE *out = fopen(argv[8], "w");
    for (long i = 0; i < runs; i++) emit(out, overhead, cut, threads, "random", run_child(overhead, cut, threads, true, {}, ds::POL_RANDOM, seed * 1000003u + i), i);
    fclose(out);
    printf("{\"runs\":%ld}\n", runs);
    return 0;
  }
  if (mode == "replay") {
    std::vector<int> pre;
    for (const char *p = argv[6]; *p;) {
      pre.push_back(atoi(p));
      while (*p && *p != ',') p++;
      if (*p) p++;
    }
    FILE *out = fopen(argv[7], "w");
    RunResult r = run_child(overhead, cut, threads, true, pre, ds::POL_DEFAULT, 1);
    emit(out, overhead, cut, threads, "replay", r, 0);
    fclose(out);
    printf("{\"runs\":1,\"diverged\":%d}\n", r.diverged ? 1 : 0);
    return 0;
  }
  int pb = atoi(argv[6]);
  long maxruns = atol(argv[7]);
  FILE *out = fopen(argv[8], "w");
  struct Item {
    std::vector<int> prefix;
    int preempt;
  };
  std::vector<Item> stack;
  stack.push_back({{}, 0});
  long runs = 0;
  bool truncated = false;
  while (!stack.empty()) {
    if (runs >= maxruns) {
      truncated = true;
      break;
    }
    Item it = std::move(stack.back());
    stack.pop_back();
    RunResult r = run_child(overhead, cut, threads, true, it.prefix, ds::POL_DEFAULT, 1);
    emit(out, overhead, cut, threads, "explore", r, runs);
    runs++;
    std::vector<int> cur;
    for (size_t i = 0; i < r.dec.size(); i++) {
      const ds::Decision &d = r.dec[i];
      if (i >= it.prefix.size()) {
        bool cur_enabled = d.cur >= 0 && d.cur < 32 && (d.enabled >> d.cur & 1);
        for (int a = 0; a < 32; a++) {
          if (!(d.enabled >> a & 1) || a == d.chosen) continue;
          int np = it.preempt + ((cur_enabled && a != d.cur) ? 1 : 0);
          if (np > pb) continue;
          std::vector<int> npre = cur;
          npre.push_back(a);
          stack.push_back({std::move(npre), np});
        }
      }
      cur.push_back(d.chosen);
    }
  }
  fclose(out);
  printf("{\"runs\":%ld,\"truncated\":%d,\"pb\":%d}\n", runs, truncated ? 1 : 0, pb);
  return 0;
}
