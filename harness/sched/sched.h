// Deterministic scheduler for pthread-based code (interposes the pthread entry points that
// std::mutex / std::condition_variable / std::thread call).  Exactly one managed thread runs
// at a time (baton passing); mutex ownership and condition-variable wait sets are kept by the
// scheduler, the real pthread objects are never touched.  No spurious wake-ups.
#pragma once
#include <cstdint>
#include <string>
#include <vector>

namespace ds {

enum Policy { POL_DEFAULT = 0, POL_RANDOM = 1 };

struct Decision {
  int chosen;        // thread id granted
  int cur;           // thread that held the baton before the decision
  uint32_t enabled;  // bitmask of enabled thread ids at the decision
};

// Start managing the calling thread (id 0).  `prefix` = forced choices (thread ids) for the
// first decisions; afterwards `pol` decides (default: keep running the current thread if it is
// enabled, else the lowest enabled id).
void init(const std::vector<int> &prefix, Policy pol, unsigned seed, bool log_sync);
void name(const void *obj, const std::string &n);  // role name of a mutex / condvar in the trace
void event(const std::string &json_fields);        // outcome event: {"e":...} fields without braces
void finish();                                     // stop managing (call from thread 0 at the end)

const std::vector<Decision> &decisions();
const std::string &trace();  // ndjson of this execution
bool diverged();             // a forced choice named a thread that was not enabled
int self_id();               // id of the calling managed thread

// Called when no thread is enabled but not all are finished.  Default: append a Deadlock event
// and call the deadlock handler (which must not return).
void set_deadlock_handler(void (*h)());
}  // namespace ds
