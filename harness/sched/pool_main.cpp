// Drives the real WorkerPool (parallel/Worker.hpp) under the deterministic scheduler.
//   pool_harness explore NW NT CLIENT PB MAXRUNS OUT   bounded-preemption DFS over schedules
//   pool_harness replay  NW NT CLIENT SCHEDULE OUT     force one schedule ("0,1,1,..")
//   pool_harness random  NW NT CLIENT SEED RUNS OUT    seeded random schedules
//   pool_harness stress  NW NT CLIENT RUNS OUT         free-running real threads, outcome events only
// CLIENT: P1 (add all, stop, join)  P2 (block-constructor pattern)  P3 (pinned-test pattern)
//         P4 (P1 with two other pools alive at once; free-running mode only)
//         P5 (P2 where task 1 waits until task 2 has started: needs a second worker to pick task 2 up).
// OUT receives the ndjson traces of all executions, each introduced by a Reset event and closed by
// an End event carrying the schedule that produced it.
#include <sys/wait.h>
#include <unistd.h>

#include <condition_variable>
#include <cstdio>
#include <cstdlib>
#include <cstring>
#include <functional>
#include <mutex>
#include <string>
#include <vector>

#include "parallel/Worker.hpp"
#include "sched.h"

struct libcsd_verif_access {
  static void name_all(WorkerPool &p) {
    ds::name(p.shared_mutex.native_handle(), "shared");
    ds::name(p.queue.mutex.native_handle(), "qm");
    ds::name(p.queue_cv.native_handle(), "cv");
    for (size_t i = 0; i < p.workers.size(); i++) ds::name(p.workers[i]->mutex_stop.native_handle(), "stop" + std::to_string(i + 1));
  }
};

static int g_pipe = -1;
static void wr(const void *p, size_t n) {
  const char *c = (const char *)p;
  while (n) {
    ssize_t k = write(g_pipe, c, n);
    if (k <= 0) _exit(3);
    c += k;
    n -= k;
  }
}
static void report_and_exit() {
  auto &d = ds::decisions();
  uint32_t n = d.size();
  wr(&n, 4);
  if (n) wr(d.data(), n * sizeof(ds::Decision));
  uint32_t dv = ds::diverged();
  wr(&dv, 4);
  const std::string &t = ds::trace();
  uint32_t l = t.size();
  wr(&l, 4);
  wr(t.data(), l);
  _exit(0);
}

// free-running (stress) mode: outcome events are serialised by this lock, which is held across
// the append, so their order is consistent with the causal order of the logged transitions
static bool g_free = false;
static std::mutex g_evm;
static std::string g_freetrace;

static void evs(const std::string &s) {
  if (g_free) {
    std::lock_guard<std::mutex> lg(g_evm);
    g_freetrace += "{" + s + ",\"t\":-1}\n";
  } else
    ds::event(s);
}
static void ev(const char *e, int task = -1) {
  std::string s = std::string("\"e\":\"") + e + "\"";
  if (task >= 0) s += ",\"task\":" + std::to_string(task);
  evs(s);
}

static void scenario(int nw, int nt, const std::string &client) {
  WorkerPool pool(nw);
  libcsd_verif_access::name_all(pool);
  std::mutex m;
  std::condition_variable cv2;
  ds::name(m.native_handle(), "m");
  ds::name(cv2.native_handle(), "cv2");
  int done = 0;
  std::vector<int> parts;
  if (client == "P1") {
    for (int i = 1; i <= nt; i++) {
      ev("Submit", i);
      pool.add_task([i]() {
        ev("TaskRun", i);
        ev("TaskEnd", i);
      });
    }
    ev("AddDone");
    ev("StopCall");
    pool.stop_all_workers();
    pool.wait_workers();
  } else if (client == "P2" || client == "P5") {
    // P5: P2 with one dependency: the body of task 1 waits until the body of task 2 has been entered
    const bool dep = client == "P5" && nt >= 2;
    std::mutex dm;
    std::condition_variable dcv;
    bool started2 = false;
    ds::name(dm.native_handle(), "dm");
    ds::name(dcv.native_handle(), "dcv");
    for (int i = 1; i <= nt; i++) {
      ev("Submit", i);
      size_t idx;
      {
        std::lock_guard<std::mutex> lg(m);
        idx = parts.size();
        parts.push_back(0);
      }
      pool.add_task([i, idx, dep, &m, &cv2, &done, &parts, &dm, &dcv, &started2]() {
        ev("TaskRun", i);
        if (dep && i == 2) {
          { std::lock_guard<std::mutex> lg(dm); started2 = true; }
          dcv.notify_all();
        }
        if (dep && i == 1) {
          std::unique_lock<std::mutex> ul(dm);
          dcv.wait(ul, [&]() { return started2; });
        }
        {
          std::lock_guard<std::mutex> lg(m);
          parts[idx] = i;
          done++;
          ev("Crit");
        }
        cv2.notify_all();
        ev("TaskEnd", i);
      });
    }
    ev("AddDone");
    std::unique_lock<std::mutex> ul(m);
    cv2.wait(ul, [&]() { return (size_t)done == parts.size(); });
    std::string s = "\"e\":\"AllDone\",\"slots\":[";
    for (size_t k = 0; k < parts.size(); k++) s += (k ? "," : "") + std::to_string(parts[k]);
    evs(s + "]");
    ev("StopCall");
    pool.stop_all_workers();
    pool.wait_workers();
  } else if (client == "P4") {
    // two more pools live alongside the one under test: their life cycles (stopped and joined while this one
    // still gets tasks; constructed after this one was told to stop) must not matter to it
    WorkerPool other(nw);
    int half = nt / 2;
    for (int i = 1; i <= half; i++) {
      ev("Submit", i);
      pool.add_task([i]() {
        ev("TaskRun", i);
        ev("TaskEnd", i);
      });
    }
    other.stop_all_workers();
    other.wait_workers();
    for (int i = half + 1; i <= nt; i++) {
      ev("Submit", i);
      pool.add_task([i]() {
        ev("TaskRun", i);
        ev("TaskEnd", i);
      });
    }
    ev("AddDone");
    ev("StopCall");
    pool.stop_all_workers();
    WorkerPool third(nw);
    pool.wait_workers();
    ev("JoinReturned");
    third.stop_all_workers();
    third.wait_workers();
    return;
  } else {  // P3
    for (int i = 1; i <= nt; i++) {
      ev("Submit", i);
      pool.add_task([i, nt, &m, &done, &pool]() {
        ev("TaskRun", i);
        {
          std::lock_guard<std::mutex> lg(m);
          done++;
          ev("Crit");
          if (done == nt) {
            ev("StopCall");
            pool.stop_all_workers();
          }
        }
        ev("TaskEnd", i);
      });
    }
    ev("AddDone");
    pool.wait_workers();
  }
  ev("JoinReturned");
}

struct RunResult {
  std::vector<ds::Decision> dec;
  bool diverged = false, timeout = false, crashed = false;
  std::string trace;
};

static RunResult run_child(int nw, int nt, const std::string &client, const std::vector<int> &prefix, ds::Policy pol, unsigned seed) {
  int fd[2];
  if (pipe(fd)) exit(2);
  pid_t pid = fork();
  if (pid == 0) {
    close(fd[0]);
    g_pipe = fd[1];
    alarm(20);
    ds::set_deadlock_handler(report_and_exit);
    ds::init(prefix, pol, seed, true);
    scenario(nw, nt, client);
    ds::finish();
    report_and_exit();
  }
  close(fd[1]);
  std::string buf;
  char tmp[65536];
  ssize_t k;
  while ((k = read(fd[0], tmp, sizeof tmp)) > 0) buf.append(tmp, k);
  close(fd[0]);
  int st = 0;
  waitpid(pid, &st, 0);
  RunResult r;
  if (WIFSIGNALED(st)) {
    if (WTERMSIG(st) == SIGALRM) r.timeout = true;
    else r.crashed = true;
    return r;
  }
  size_t p = 0;
  auto rd32 = [&](uint32_t &v) {
    if (p + 4 > buf.size()) return false;
    memcpy(&v, buf.data() + p, 4);
    p += 4;
    return true;
  };
  uint32_t n, dv, l;
  if (!rd32(n)) { r.crashed = true; return r; }
  r.dec.resize(n);
  memcpy(r.dec.data(), buf.data() + p, n * sizeof(ds::Decision));
  p += n * sizeof(ds::Decision);
  rd32(dv);
  r.diverged = dv;
  rd32(l);
  r.trace.assign(buf.data() + p, l);
  return r;
}

static RunResult run_free(int nw, int nt, const std::string &client) {
  int fd[2];
  if (pipe(fd)) exit(2);
  pid_t pid = fork();
  if (pid == 0) {
    close(fd[0]);
    g_pipe = fd[1];
    g_free = true;
    alarm(30);
    scenario(nw, nt, client);
    // join returned for every worker: each worker thread has exited (after the StopCall event)
    for (int w = 1; w <= nw; w++) g_freetrace += "{\"e\":\"exit\",\"t\":" + std::to_string(w) + "}\n";
    // the JoinReturned event was appended by scenario() before the exit events: move it last
    size_t p = g_freetrace.find("{\"e\":\"JoinReturned\"");
    if (p != std::string::npos) {
      size_t e = g_freetrace.find('\n', p);
      std::string jr = g_freetrace.substr(p, e - p + 1);
      g_freetrace.erase(p, e - p + 1);
      g_freetrace += jr;
    }
    wr(g_freetrace.data(), g_freetrace.size());
    _exit(0);
  }
  close(fd[1]);
  RunResult r;
  char tmp[65536];
  ssize_t k;
  while ((k = read(fd[0], tmp, sizeof tmp)) > 0) r.trace.append(tmp, k);
  close(fd[0]);
  int st = 0;
  waitpid(pid, &st, 0);
  if (WIFSIGNALED(st)) {
    if (WTERMSIG(st) == SIGALRM) r.timeout = true;
    else r.crashed = true;
  }
  return r;
}

static std::string sched_str(const std::vector<ds::Decision> &d) {
  std::string s;
  for (size_t i = 0; i < d.size(); i++) s += (i ? "," : "") + std::to_string(d[i].chosen);
  return s;
}

static void emit(FILE *out, int nw, int nt, const std::string &client, const RunResult &r, long run) {
  fprintf(out, "{\"e\":\"Reset\",\"nw\":%d,\"nt\":%d,\"client\":\"%s\",\"run\":%ld}\n", nw, nt, client.c_str(), run);
  fputs(r.trace.c_str(), out);
  if (r.timeout) fprintf(out, "{\"e\":\"Timeout\"}\n");
  if (r.crashed) fprintf(out, "{\"e\":\"Crash\"}\n");
  fprintf(out, "{\"e\":\"End\",\"diverged\":%d,\"schedule\":\"%s\"}\n", r.diverged ? 1 : 0, sched_str(r.dec).c_str());
}

int main(int argc, char **argv) {
  if (argc < 6) {
    fprintf(stderr, "usage: see source\n");
    return 2;
  }
  std::string mode = argv[1];
  int nw = atoi(argv[2]), nt = atoi(argv[3]);
  std::string client = argv[4];
  if (mode == "replay") {
    std::vector<int> pre;
    for (const char *p = argv[5]; *p;) {
      pre.push_back(atoi(p));
      while (*p && *p != ',') p++;
      if (*p) p++;
    }
    FILE *out = fopen(argv[6], "w");
    RunResult r = run_child(nw, nt, client, pre, ds::POL_DEFAULT, 1);
    emit(out, nw, nt, client, r, 0);
    fclose(out);
    printf("{\"runs\":1,\"diverged\":%d,\"steps\":%zu}\n", r.diverged ? 1 : 0, r.dec.size());
    return 0;
  }
  if (mode == "random") {
    unsigned seed = atoi(argv[5]);
    long runs = atol(argv[6]);
    FILE *out = fopen(argv[7], "w");
    for (long i = 0; i < runs; i++) {
      RunResult r = run_child(nw, nt, client, {}, ds::POL_RANDOM, seed * 1000003u + i);
      emit(out, nw, nt, client, r, i);
    }
    fclose(out);
    printf("{\"runs\":%ld}\n", runs);
    return 0;
  }
  if (mode == "stress") {
    long runs = atol(argv[5]);
    FILE *out = fopen(argv[6], "w");
    for (long i = 0; i < runs; i++) {
      RunResult r = run_free(nw, nt, client);
      emit(out, nw, nt, client, r, i);
    }
    fclose(out);
    printf("{\"runs\":%ld}\n", runs);
    return 0;
  }
  // explore: every schedule with at most PB preemptions, each exactly once
  int pb = atoi(argv[5]);
  long maxruns = atol(argv[6]);
  FILE *out = fopen(argv[7], "w");
  struct Item {
    std::vector<int> prefix;
    int preempt;
  };
  std::vector<Item> stack;
  stack.push_back({{}, 0});
  long runs = 0, maxsteps = 0;
  bool truncated = false;
  while (!stack.empty()) {
    if (runs >= maxruns) {
      truncated = true;
      break;
    }
    Item it = std::move(stack.back());
    stack.pop_back();
    RunResult r = run_child(nw, nt, client, it.prefix, ds::POL_DEFAULT, 1);
    emit(out, nw, nt, client, r, runs);
    runs++;
    if ((long)r.dec.size() > maxsteps) maxsteps = r.dec.size();
    // branch on every decision after the forced prefix
    int pre = it.preempt;
    std::vector<int> cur;
    for (size_t i = 0; i < r.dec.size(); i++) {
      const ds::Decision &d = r.dec[i];
      if (i >= it.prefix.size()) {
        bool cur_enabled = d.cur >= 0 && d.cur < 32 && (d.enabled >> d.cur & 1);
        for (int a = 0; a < 32; a++) {
          if (!(d.enabled >> a & 1) || a == d.chosen) continue;
          int np = pre + ((cur_enabled && a != d.cur) ? 1 : 0);
          if (np > pb) continue;
          std::vector<int> np_prefix = cur;
          np_prefix.push_back(a);
          stack.push_back({std::move(np_prefix), np});
        }
      }
      cur.push_back(d.chosen);
    }
  }
  fclose(out);
  printf("{\"runs\":%ld,\"truncated\":%d,\"maxsteps\":%ld,\"pb\":%d}\n", runs, truncated ? 1 : 0, maxsteps, pb);
  return 0;
}
