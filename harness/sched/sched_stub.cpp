// No-op implementation of the scheduler API for harness variants that must not interpose
// pthread (ThreadSanitizer builds): only the free-running modes are usable.
#include "sched.h"
namespace ds {
static std::vector<Decision> g_d;
static std::string g_t;
void init(const std::vector<int> &, Policy, unsigned, bool) {}
void name(const void *, const std::string &) {}
void event(const std::string &) {}
void finish() {}
const std::vector<Decision> &decisions() { return g_d; }
const std::string &trace() { return g_t; }
bool diverged() { return false; }
int self_id() { return -1; }
void set_deadlock_handler(void (*)()) {}
}  // namespace ds
