// Deterministic baton-passing scheduler via pthread interposition.  See sched.h.
#include "sched.h"

#include <dlfcn.h>
#include <pthread.h>
#include <semaphore.h>
#include <unistd.h>

#include <cstdio>
#include <cstdlib>
#include <cstring>
#include <map>
#include <random>

namespace ds {
enum Op { START, LOCK, UNLOCK, CWAIT, CREACQ, BCAST, SIGNAL, JOIN, EXIT, NONE };
static const char *opn[] = {"start", "lock", "unlock", "cwait", "creacq", "bcast", "signal", "join", "exit", "none"};

struct Th {
  int id;
  sem_t sem;
  Op pend = NONE;
  const void *obj = nullptr;   // mutex (LOCK/UNLOCK/CREACQ) or condvar (CWAIT/BCAST/SIGNAL)
  const void *obj2 = nullptr;  // CWAIT: the mutex; while parked: the condvar
  int jtarget = -1;
  bool finished = false;
  bool cvwaiting = false;
  pthread_t real;
};

static std::vector<Th *> ths;
static std::map<const void *, int> owner;  // mutex -> owning thread id (absent = free)
static std::map<const void *, std::string> names;
static int n_mu = 0, n_cv = 0;
static __thread Th *self = nullptr;
static bool active = false;
static bool g_log_sync = true;
static std::mt19937 rng(1);
static std::vector<int> g_prefix;
static size_t g_ppos = 0;
static Policy g_pol = POL_DEFAULT;
static std::vector<Decision> g_dec;
static std::string g_trace;
static bool g_diverged = false;
static void (*g_deadlock)() = nullptr;

static const std::string &nm(const void *o, bool is_cv) {
  auto it = names.find(o);
  if (it != names.end()) return it->second;
  char b[32];
  if (is_cv) snprintf(b, sizeof b, "cv#%d", ++n_cv);
  else snprintf(b, sizeof b, "mu#%d", ++n_mu);
  return names[o] = b;
}

static bool enabled(const Th *t) {
  if (t->finished || t->cvwaiting) return false;
  switch (t->pend) {
    case LOCK:
    case CREACQ: return owner.find(t->obj) == owner.end();
    case JOIN: return t->jtarget >= 0 ? ths[t->jtarget]->finished : true;
    case NONE: return false;
    default: return true;
  }
}

static void logsync(const Th *t) {
  if (!g_log_sync) return;
  char b[160];
  switch (t->pend) {
    case JOIN: snprintf(b, sizeof b, "{\"e\":\"join\",\"t\":%d,\"u\":%d}\n", t->id, t->jtarget); break;
    case START:
    case EXIT: snprintf(b, sizeof b, "{\"e\":\"%s\",\"t\":%d}\n", opn[t->pend], t->id); break;
    case CWAIT:
      snprintf(b, sizeof b, "{\"e\":\"cwait\",\"t\":%d,\"o\":\"%s\",\"m\":\"%s\"}\n", t->id, nm(t->obj, true).c_str(),
               nm(t->obj2, false).c_str());
      break;
    case BCAST:
    case SIGNAL: snprintf(b, sizeof b, "{\"e\":\"%s\",\"t\":%d,\"o\":\"%s\"}\n", opn[t->pend], t->id, nm(t->obj, true).c_str()); break;
    default: snprintf(b, sizeof b, "{\"e\":\"%s\",\"t\":%d,\"o\":\"%s\"}\n", opn[t->pend], t->id, nm(t->obj, false).c_str()); break;
  }
  g_trace += b;
}

// apply the effect of t's pending operation to the scheduler's model (at grant time)
static void apply(Th *t) {
  logsync(t);
  switch (t->pend) {
    case LOCK:
    case CREACQ: owner[t->obj] = t->id; break;
    case UNLOCK: owner.erase(t->obj); break;
    case CWAIT: {
      owner.erase(t->obj2);
      t->cvwaiting = true;
      t->pend = CREACQ;
      const void *m = t->obj2;
      t->obj2 = t->obj;  // remember the condvar
      t->obj = m;        // re-acquire target
      return;            // stays parked until a broadcast/signal
    }
    case BCAST:
      for (auto x : ths)
        if (x->cvwaiting && x->obj2 == t->obj) x->cvwaiting = false;
      break;
    case SIGNAL:
      for (auto x : ths)
        if (x->cvwaiting && x->obj2 == t->obj) {
          x->cvwaiting = false;
          break;
        }
      break;
    case EXIT: t->finished = true; break;
    default: break;
  }
  t->pend = NONE;
}

static void deadlock_event() {
  std::string s = "{\"e\":\"Deadlock\",\"blocked\":[";
  bool first = true;
  for (auto t : ths)
    if (!t->finished) {
      char b[128];
      bool cvw = t->cvwaiting;
      snprintf(b, sizeof b, "%s{\"t\":%d,\"on\":\"%s\",\"o\":\"%s\"}", first ? "" : ",", t->id, cvw ? "cv" : opn[t->pend],
               t->pend == JOIN ? std::to_string(t->jtarget).c_str() : nm(cvw ? t->obj2 : t->obj, cvw).c_str());
      s += b;
      first = false;
    }
  s += "]}\n";
  g_trace += s;
}

// choose and grant; returns the thread that resumes running (nullptr when all finished)
static Th *pick(Th *cur) {
  for (;;) {
    std::vector<Th *> en;
    uint32_t mask = 0;
    for (auto t : ths)
      if (enabled(t)) {
        en.push_back(t);
        if (t->id < 32) mask |= 1u << t->id;
      }
    if (en.empty()) {
      bool all = true;
      for (auto t : ths)
        if (!t->finished) all = false;
      if (all) return nullptr;
      deadlock_event();
      if (g_deadlock) g_deadlock();
      _exit(42);
    }
    Th *t = nullptr;
    if (g_ppos < g_prefix.size()) {
      int want = g_prefix[g_ppos++];
      for (auto x : en)
        if (x->id == want) t = x;
      if (!t) {
        g_diverged = true;
        g_ppos = g_prefix.size();  // abandon the forced prefix
      }
    }
    if (!t) {
      if (g_pol == POL_RANDOM) t = en[rng() % en.size()];
      else {
        for (auto x : en)
          if (x == cur) t = x;
        if (!t) t = en[0];
      }
    }
    g_dec.push_back(Decision{t->id, cur ? cur->id : -1, mask});
    Op was = t->pend;
    apply(t);
    if (was == CWAIT || was == EXIT) continue;  // that thread does not resume: choose again
    return t;
  }
}

static void yield_point() {
  Th *me = self;
  Th *nx = pick(me);
  if (nx == me) return;
  if (nx) sem_post(&nx->sem);
  if (!me->finished) sem_wait(&me->sem);
}

static void do_op(Op op, const void *o, const void *o2 = nullptr, int jt = -1) {
  self->pend = op;
  self->obj = o;
  self->obj2 = o2;
  self->jtarget = jt;
  yield_point();
}

struct StartArg {
  void *(*f)(void *);
  void *arg;
  Th *t;
  sem_t reg;
};

static void *tramp(void *p) {
  StartArg *a = (StartArg *)p;
  self = a->t;
  self->pend = START;
  sem_post(&a->reg);
  sem_wait(&self->sem);  // granted START
  void *r = a->f(a->arg);
  Th *me = self;
  me->pend = EXIT;
  me->obj = nullptr;
  // grant our own EXIT immediately (thread termination is not a choice and not a recorded
  // decision), then hand the baton on
  logsync(me);
  me->finished = true;
  me->pend = NONE;
  Th *nx = pick(me);
  if (nx) sem_post(&nx->sem);
  delete a;
  return r;
}

void init(const std::vector<int> &prefix, Policy pol, unsigned seed, bool log_sync) {
  rng.seed(seed);
  g_prefix = prefix;
  g_ppos = 0;
  g_pol = pol;
  g_log_sync = log_sync;
  Th *m = new Th;
  m->id = 0;
  sem_init(&m->sem, 0, 0);
  ths.push_back(m);
  self = m;
  active = true;
}
void name(const void *o, const std::string &n) { names[o] = n; }
void event(const std::string &f) { g_trace += "{" + f + ",\"t\":" + std::to_string(self ? self->id : -1) + "}\n"; }
void finish() { active = false; }
const std::vector<Decision> &decisions() { return g_dec; }
const std::string &trace() { return g_trace; }
bool diverged() { return g_diverged; }
int self_id() { return self ? self->id : -1; }
void set_deadlock_handler(void (*h)()) { g_deadlock = h; }
}  // namespace ds

using namespace ds;
#define REAL(name, type) static auto real = (type)dlsym(RTLD_NEXT, #name)
extern "C" {
int pthread_mutex_lock(pthread_mutex_t *m) {
  REAL(pthread_mutex_lock, int (*)(pthread_mutex_t *));
  if (!active || !self) return real(m);
  do_op(LOCK, m);
  return 0;
}
int pthread_mutex_unlock(pthread_mutex_t *m) {
  REAL(pthread_mutex_unlock, int (*)(pthread_mutex_t *));
  if (!active || !self) return real(m);
  do_op(UNLOCK, m);
  return 0;
}
int pthread_cond_wait(pthread_cond_t *c, pthread_mutex_t *m) {
  REAL(pthread_cond_wait, int (*)(pthread_cond_t *, pthread_mutex_t *));
  if (!active || !self) return real(c, m);
  do_op(CWAIT, c, m);
  return 0;
}
int pthread_cond_broadcast(pthread_cond_t *c) {
  REAL(pthread_cond_broadcast, int (*)(pthread_cond_t *));
  if (!active || !self) return real(c);
  do_op(BCAST, c);
  return 0;
}
int pthread_cond_signal(pthread_cond_t *c) {
  REAL(pthread_cond_signal, int (*)(pthread_cond_t *));
  if (!active || !self) return real(c);
  do_op(SIGNAL, c);
  return 0;
}
int pthread_create(pthread_t *t, const pthread_attr_t *a, void *(*f)(void *), void *arg) {
  REAL(pthread_create, int (*)(pthread_t *, const pthread_attr_t *, void *(*)(void *), void *));
  if (!active || !self) return real(t, a, f, arg);
  Th *n = new Th;
  n->id = (int)ths.size();
  sem_init(&n->sem, 0, 0);
  StartArg *sa = new StartArg{f, arg, n, {}};
  sem_init(&sa->reg, 0, 0);
  int r = real(t, a, tramp, sa);
  if (r != 0) return r;
  n->real = *t;
  sem_wait(&sa->reg);
  ths.push_back(n);
  return 0;
}
int pthread_join(pthread_t t, void **r) {
  REAL(pthread_join, int (*)(pthread_t, void **));
  if (!active || !self) return real(t, r);
  int id = -1;
  for (auto x : ths)
    if (x->id > 0 && pthread_equal(x->real, t)) id = x->id;
  do_op(JOIN, nullptr, nullptr, id);
  return real(t, r);
}
}
