// Sequential API driver: executes programs (one API call per line) on the real library and logs
// one ndjson event per public call at its return.  The driver computes no expected values: TLC
// evaluates CSDTrace.tla over the recorded trace.
//
//   driver PROGRAMS OUT [timeout_seconds]
//
// PROGRAMS: text; `P <id>` starts a program, each following line is one call:
//   B h kind bucket overhead sparse bparam bwt cut threads n hex_1 .. hex_n       build
//   N h | M h                                     numElements | maxLength
//   L h hex | E h id | LR h k | ER h k            locate | extract | locateRank | extractRank
//   LP h it hex | LS h it hex                     locatePrefix | locateSubstr   (opens ID iterator it)
//   EP h it hex | ES h it hex | ET h it           extractPrefix | extractSubstr | extractTable
//   IH it | IN it | SH it | SN it                 hasNext / next on an ID / string iterator
//   ID it cap | SD it cap                         drain (hasNext before every next, once after the end)
//   CI it                                         delete iterator
//   S h img                                       save into image slot img
//   CAT st img ..                                 stream st := concatenation of images
//   LG st h opt | LK kind st h opt                generic loader | the kind's own loader (from st's position)
//   LT img taghi taglo                            generic load of image img with its first word replaced
//   D h                                           delete dictionary
//   MA v                                          MEMALLOC override (LIBCSD_VERIF hook)
// Every program runs in a forked child under an alarm; the parent appends a crash / timeout event
// naming the call that was executing.  Under AddressSanitizer each report becomes a memerr event.
#include <fcntl.h>
#include <signal.h>
#include <sys/wait.h>
#include <unistd.h>

#include <algorithm>
#include <cstdio>
#include <cstdlib>
#include <cstring>
#include <fstream>
#include <iostream>
#include <map>
#include <sstream>
#include <string>
#include <vector>

#include "StringDictionary.h"
#include "StringDictionaryHASHRPDACBlocks.h"
#include "iterators/IteratorDictStringPlain.h"

#if defined(__SANITIZE_ADDRESS__)
extern "C" void __asan_set_error_report_callback(void (*)(const char *));
#endif

static int g_out = -1;  // child: pipe to the parent
static std::string g_buf;
static void flush_buf() {
  const char *c = g_buf.data();
  size_t n = g_buf.size();
  while (n) {
    ssize_t k = write(g_out, c, n);
    if (k <= 0) _exit(3);
    c += k;
    n -= k;
  }
  g_buf.clear();
}
static void emit(const std::string &s) {
  g_buf += s;
  g_buf += '\n';
  flush_buf();  // unbuffered: the parent must see everything logged before a crash
}

static std::string limbs(unsigned long long v) {
  std::string r = "[";
  bool first = true;
  do {
    r += (first ? "" : ",") + std::to_string((unsigned)(v & 0xffff));
    v >>= 16;
    first = false;
  } while (v);
  return r + "]";
}
static std::string bytesj(const unsigned char *p, size_t n) {
  std::string r = "[";
  for (size_t i = 0; i < n; i++) {
    if (i) r += ',';
    r += std::to_string((unsigned)p[i]);
  }
  return r + "]";
}
static std::string unhex(const std::string &h) {
  std::string s;
  auto v = [](char c) { return c <= '9' ? c - '0' : (c | 32) - 'a' + 10; };
  if (h == "-") return s;
  for (size_t i = 0; i + 1 < h.size(); i += 2) s += (char)(v(h[i]) * 16 + v(h[i + 1]));
  return s;
}
static std::string digest(const std::string &b) {
  uint64_t h1 = 1469598103934665603ULL, h2 = 0x9e3779b97f4a7c15ULL;
  for (unsigned char c : b) {
    h1 = (h1 ^ c) * 1099511628211ULL;
    h2 = (h2 + c) * 0xff51afd7ed558ccdULL;
    h2 ^= h2 >> 29;
  }
  char buf[40];
  snprintf(buf, sizeof buf, "%016llx%016llx", (unsigned long long)h1, (unsigned long long)h2);
  return buf;
}

struct Obj {
  StringDictionary *d = nullptr;
};
static std::map<int, StringDictionary *> objs;
static std::map<int, IteratorDictID *> idits;
static std::map<int, IteratorDictString *> strits;
static std::map<int, std::string> images;
static std::map<int, std::istringstream *> streams;
static std::map<int, std::vector<int>> stream_imgs;
static std::string g_cur;  // the call being executed (for memerr events)
static int g_cur_h = -1;   // the dictionary handle it works on (-1: none)
static std::map<int, int> it_owner;

static std::string esc(const std::string &s) {
  std::string r;
  for (char c : s) {
    if (c == '"' || c == '\\') r += '\\';
    if ((unsigned char)c < 32) continue;
    r += c;
  }
  return r;
}

#if defined(__SANITIZE_ADDRESS__)
static void asan_cb(const char *rep) {
  // class: "ERROR: AddressSanitizer: <class> on address" ; access: "READ of size" / "WRITE of size"
  std::string r(rep), cls = "unknown", acc = "", site = "", alloc = "";
  size_t p = r.find("AddressSanitizer: ");
  if (p != std::string::npos) {
    size_t e = r.find_first_of(" \n", p + 18);
    cls = r.substr(p + 18, e - (p + 18));
  }
  if (r.find("WRITE of size") != std::string::npos) acc = "WRITE";
  else if (r.find("READ of size") != std::string::npos) acc = "READ";
  // first frame inside the repository (path contains /repo/, or the scratch worktree named by VERIF_REPO)
  const char *rr = getenv("VERIF_REPO");
  const std::string marker = std::string(rr && *rr ? rr : "/repo") + "/";
  auto first_repo_frame = [&](size_t from) {
    size_t q = from;
    while ((q = r.find("\n    #", q)) != std::string::npos) {
      size_t eol = r.find('\n', q + 1);
      std::string line = r.substr(q + 1, eol - q - 1);
      size_t rp = line.find(marker);
      if (rp != std::string::npos) {
        size_t in = line.find(" in ");
        std::string fn = in != std::string::npos ? line.substr(in + 4, rp - in - 5) : "";
        size_t par = fn.find('(');
        if (par != std::string::npos) fn = fn.substr(0, par);
        std::string loc = line.substr(rp + marker.size());
        size_t col = loc.find(':');
        size_t col2 = col == std::string::npos ? col : loc.find(':', col + 1);
        if (col2 != std::string::npos) loc = loc.substr(0, col2);
        return fn + "@" + loc;
      }
      if (line.find("#0") == std::string::npos && line.find("    #") == std::string::npos) break;
      q = eol;
      if (r.compare(eol, 2, "\n\n") == 0) break;
    }
    return std::string("?");
  };
  site = first_repo_frame(0);
  size_t ap = r.find("allocated by thread");
  if (ap == std::string::npos) ap = r.find("freed by thread");
  if (ap != std::string::npos) alloc = first_repo_frame(ap);
  emit("{\"e\":\"memerr\",\"class\":\"" + esc(cls) + "\",\"access\":\"" + acc + "\",\"site\":\"" + esc(site) + "\",\"alloc\":\"" + esc(alloc) +
       "\",\"h\":" + std::to_string(g_cur_h) + ",\"during\":\"" + esc(g_cur) + "\"}");
}
#endif

static std::string par_json(unsigned bucket, int overhead, int sparse, int bparam, unsigned bwt, unsigned long cut, int threads) {
  char b[200];
  snprintf(b, sizeof b, "{\"bucket\":%u,\"overhead\":%d,\"sparse\":%d,\"bparam\":%d,\"bwt\":%u,\"cut\":%lu,\"threads\":%d}", bucket, overhead, sparse,
           bparam, bwt, cut > 0x3fffffffUL ? 0x3fffffffUL : cut, threads);
  return b;
}

// construct exactly as Build.cpp / the tests do
static StringDictionary *build(const std::string &kind, const std::vector<std::string> &S, unsigned bucket, int overhead, int sparse, int bparam,
                               unsigned bwt, unsigned long cut, int threads) {
  size_t total = 0;
  for (auto &s : S) total += s.size() + 1;
  bool hashk = kind == "HASHHF" || kind == "HASHRPF" || kind == "HASHUFFDAC" || kind == "HASHRPDAC";
  unsigned char *buf = new unsigned char[total + (hashk ? 1 : 0)];
  size_t p = 0;
  for (auto &s : S) {
    memcpy(buf + p, s.c_str(), s.size() + 1);
    p += s.size() + 1;
  }
  if (hashk) buf[total] = 0;
  if (kind == "XBW") {
    IteratorDictString *it = new IteratorDictStringPlain(buf, total - 1);
    StringDictionary *d = new StringDictionaryXBW(it);
    delete it;
    return d;
  }
  if (kind == "FMINDEX") {
    IteratorDictString *it = new IteratorDictStringPlain(buf, total);
    StringDictionary *d = new StringDictionaryFMINDEX(it, sparse != 0, bparam, bwt);
    delete it;
    return d;
  }
  if (kind == "BLOCKS") {
    IteratorDictStringPlain *it = new IteratorDictStringPlain(buf, total);
    return new StringDictionaryHASHRPDACBlocks(it, total, overhead, cut, threads);
  }
  IteratorDictString *it = new IteratorDictStringPlain(buf, total);
  if (kind == "PFC") return new StringDictionaryPFC(it, bucket);
  if (kind == "RPFC") return new StringDictionaryRPFC(it, bucket);
  if (kind == "HTFC") return new StringDictionaryHTFC(it, bucket);
  if (kind == "HHTFC") return new StringDictionaryHHTFC(it, bucket);
  if (kind == "RPHTFC") return new StringDictionaryRPHTFC(it, bucket);
  if (kind == "RPDAC") return new StringDictionaryRPDAC(it);
  if (kind == "HASHHF") return new StringDictionaryHASHHF(it, total, overhead);
  if (kind == "HASHRPF") return new StringDictionaryHASHRPF(it, total, overhead);
  if (kind == "HASHUFFDAC") return new StringDictionaryHASHUFFDAC(it, total, overhead);
  if (kind == "HASHRPDAC") return new StringDictionaryHASHRPDAC(it, total, overhead);
  delete it;
  return nullptr;
}

static StringDictionary *load_kind(const std::string &kind, std::istream &in, unsigned opt) {
  if (kind == "PFC") return StringDictionaryPFC::load(in);
  if (kind == "RPFC") return StringDictionaryRPFC::load(in);
  if (kind == "HTFC") return StringDictionaryHTFC::load(in);
  if (kind == "HHTFC") return StringDictionaryHHTFC::load(in);
  if (kind == "RPHTFC") return StringDictionaryRPHTFC::load(in);
  if (kind == "RPDAC") return StringDictionaryRPDAC::load(in);
  if (kind == "HASHHF") return StringDictionaryHASHHF::load(in, opt);
  if (kind == "HASHRPF") return StringDictionaryHASHRPF::load(in, opt);
  if (kind == "HASHUFFDAC") return StringDictionaryHASHUFFDAC::load(in);
  if (kind == "HASHRPDAC") return StringDictionaryHASHRPDAC::load(in, opt);
  if (kind == "BLOCKS") return StringDictionaryHASHRPDACBlocks::load(in, opt);
  if (kind == "FMINDEX") return StringDictionaryFMINDEX::load(in);
  if (kind == "XBW") return StringDictionaryXBW::load(in);
  return nullptr;
}

struct Pat {
  unsigned char *p;
  std::string orig;
  explicit Pat(const std::string &s) : orig(s) {
    p = new unsigned char[s.size() + 1];  // exactly len + NUL: an over-read trips the sanitizer
    memcpy(p, s.c_str(), s.size() + 1);
  }
  std::string after() {
    bool same = memcmp(p, orig.c_str(), orig.size() + 1) == 0;
    std::string r = same ? "\"pok\":1" : "\"pok\":0,\"pa\":" + bytesj(p, orig.size() + 1);
    return r;
  }
  ~Pat() { delete[] p; }
};

static std::string strres(unsigned char *s, unsigned len) {
  if (!s) return "\"null\":1,\"len\":" + std::to_string(len) + ",\"s\":[]";
  size_t n = 0;
  while (s[n] != 0 && n < (size_t)len + 65536) n++;
  return "\"null\":0,\"len\":" + std::to_string(len) + ",\"s\":" + bytesj(s, n);
}

static void exec_line(const std::string &line) {
  std::istringstream ss(line);
  std::string op;
  ss >> op;
  g_cur = line.size() > 80 ? line.substr(0, 80) : line;
  {
    std::istringstream s3(line);
    std::string o3;
    int a = -1, b = -1;
    s3 >> o3 >> a >> b;
    g_cur_h = -1;
    if (o3 == "B" || o3 == "N" || o3 == "M" || o3 == "L" || o3 == "E" || o3 == "ER" || o3 == "LR" || o3 == "LP" || o3 == "LS" || o3 == "EP" ||
        o3 == "ES" || o3 == "ET" || o3 == "S" || o3 == "D")
      g_cur_h = a;
    else if (o3 == "IH" || o3 == "IN" || o3 == "ID" || o3 == "SH" || o3 == "SN" || o3 == "SD" || o3 == "CI")
      g_cur_h = it_owner.count(a) ? it_owner[a] : -1;
    else if (o3 == "LG")
      g_cur_h = b;
    if (o3 == "LP" || o3 == "LS" || o3 == "EP" || o3 == "ES" || o3 == "ET") it_owner[b] = a;
  }
  emit("{\"e\":\"_op\",\"h\":" + std::to_string(g_cur_h) + ",\"l\":\"" + esc(g_cur) + "\"}");
  {
    // calls on a handle that does not exist (its load returned NULL) are not made
    static const char *hops[] = {"N", "M", "L", "E", "ER", "LR", "LP", "LS", "EP", "ES", "ET", "S", "D"};
    for (auto o : hops)
      if (op == o) {
        std::istringstream s2(line);
        std::string o2;
        int h = -1;
        s2 >> o2 >> h;
        if (!objs.count(h) || !objs[h]) {
          emit("{\"e\":\"NoObj\",\"h\":" + std::to_string(h) + "}");
          return;
        }
      }
  }
  if (op == "B") {
    int h, overhead, sparse, bparam, threads;
    unsigned bucket, bwt;
    unsigned long cut;
    size_t n;
    std::string kind;
    ss >> h >> kind >> bucket >> overhead >> sparse >> bparam >> bwt >> cut >> threads >> n;
    std::vector<std::string> S;
    std::string sj = "[";
    for (size_t i = 0; i < n; i++) {
      std::string hx;
      ss >> hx;
      S.push_back(unhex(hx));
      sj += (i ? "," : "") + bytesj((const unsigned char *)S.back().data(), S.back().size());
    }
    sj += "]";
    StringDictionary *d = build(kind, S, bucket, overhead, sparse, bparam, bwt, cut, threads);
    objs[h] = d;
    emit("{\"e\":\"Build\",\"h\":" + std::to_string(h) + ",\"kind\":\"" + kind + "\",\"par\":" + par_json(bucket, overhead, sparse, bparam, bwt, cut, threads) +
         ",\"S\":" + sj + "}");
  } else if (op == "N" || op == "M") {
    int h;
    ss >> h;
    unsigned long long r = op == "N" ? objs[h]->numElements() : objs[h]->maxLength();
    emit(std::string("{\"e\":\"") + (op == "N" ? "Num" : "MaxLen") + "\",\"h\":" + std::to_string(h) + ",\"r\":" + limbs(r) + "}");
  } else if (op == "L") {
    int h;
    std::string hx;
    ss >> h >> hx;
    std::string q = unhex(hx);
    Pat pat(q);
    unsigned long r = objs[h]->locate(pat.p, q.size());
    emit("{\"e\":\"Locate\",\"h\":" + std::to_string(h) + ",\"q\":" + bytesj((const unsigned char *)q.data(), q.size()) + ",\"r\":" + limbs(r) + "," + pat.after() + "}");
  } else if (op == "E" || op == "ER") {
    int h;
    unsigned long long id;
    ss >> h >> id;
    unsigned len = 0xdeadbeef;
    unsigned char *s = op == "E" ? objs[h]->extract((size_t)id, &len) : objs[h]->extractRank((uint)id, &len);
    emit(std::string("{\"e\":\"") + (op == "E" ? "Extract" : "ExtRank") + "\",\"h\":" + std::to_string(h) + ",\"id\":" + limbs(id) + "," + strres(s, len) + "}");
    delete[] s;
  } else if (op == "LR") {
    int h;
    unsigned k;
    ss >> h >> k;
    unsigned r = objs[h]->locateRank(k);
    emit("{\"e\":\"LocRank\",\"h\":" + std::to_string(h) + ",\"id\":" + limbs(k) + ",\"r\":" + limbs(r) + "}");
  } else if (op == "LP" || op == "LS") {
    int h, it;
    std::string hx;
    ss >> h >> it >> hx;
    std::string q = unhex(hx);
    Pat pat(q);
    IteratorDictID *x = op == "LP" ? objs[h]->locatePrefix(pat.p, q.size()) : objs[h]->locateSubstr(pat.p, q.size());
    if (x) idits[it] = x;
    emit(std::string("{\"e\":\"OpenId\",\"op\":\"") + (op == "LP" ? "prefix" : "substr") + "\",\"h\":" + std::to_string(h) + ",\"it\":" + std::to_string(it) +
         ",\"p\":" + bytesj((const unsigned char *)q.data(), q.size()) + ",\"null\":" + (x ? "0" : "1") + "," + pat.after() + "}");
  } else if (op == "EP" || op == "ES" || op == "ET") {
    int h, it;
    std::string hx = "-";
    ss >> h >> it;
    if (op != "ET") ss >> hx;
    std::string q = unhex(hx);
    Pat pat(q);
    IteratorDictString *x = op == "EP"   ? objs[h]->extractPrefix(pat.p, q.size())
                            : op == "ES" ? objs[h]->extractSubstr(pat.p, q.size())
                                         : objs[h]->extractTable();
    if (x) strits[it] = x;
    emit(std::string("{\"e\":\"OpenStr\",\"op\":\"") + (op == "EP" ? "prefix" : op == "ES" ? "substr" : "table") + "\",\"h\":" + std::to_string(h) +
         ",\"it\":" + std::to_string(it) + ",\"p\":" + bytesj((const unsigned char *)q.data(), q.size()) + ",\"null\":" + (x ? "0" : "1") + "," + pat.after() + "}");
  } else if (op == "IH" || op == "IN" || op == "ID") {
    int it;
    long cap = 1;
    ss >> it;
    if (op == "ID") ss >> cap;
    auto f = idits.find(it);
    if (f == idits.end()) return;  // the open returned NULL: nothing to call
    IteratorDictID *x = f->second;
    if (op == "IH") emit("{\"e\":\"IdHas\",\"it\":" + std::to_string(it) + ",\"r\":" + (x->hasNext() ? "1" : "0") + "}");
    else if (op == "IN") emit("{\"e\":\"IdNext\",\"it\":" + std::to_string(it) + ",\"r\":" + limbs(x->next()) + "}");
    else {
      long k = 0;
      for (;;) {
        bool hn = x->hasNext();
        emit("{\"e\":\"IdHas\",\"it\":" + std::to_string(it) + ",\"r\":" + (hn ? "1" : "0") + "}");
        if (!hn) break;
        if (k++ >= cap) {
          emit("{\"e\":\"IterCap\",\"it\":" + std::to_string(it) + "}");
          break;
        }
        emit("{\"e\":\"IdNext\",\"it\":" + std::to_string(it) + ",\"r\":" + limbs(x->next()) + "}");
      }
    }
  } else if (op == "SH" || op == "SN" || op == "SD") {
    int it;
    long cap = 1;
    ss >> it;
    if (op == "SD") ss >> cap;
    auto f = strits.find(it);
    if (f == strits.end()) return;
    IteratorDictString *x = f->second;
    auto nxt = [&]() {
      unsigned len = 0xdeadbeef;
      unsigned char *s = x->next(&len);
      emit("{\"e\":\"StrNext\",\"it\":" + std::to_string(it) + "," + strres(s, len) + "}");
      delete[] s;
    };
    if (op == "SH") emit("{\"e\":\"StrHas\",\"it\":" + std::to_string(it) + ",\"r\":" + (x->hasNext() ? "1" : "0") + "}");
    else if (op == "SN") nxt();
    else {
      long k = 0;
      for (;;) {
        bool hn = x->hasNext();
        emit("{\"e\":\"StrHas\",\"it\":" + std::to_string(it) + ",\"r\":" + (hn ? "1" : "0") + "}");
        if (!hn) break;
        if (k++ >= cap) {
          emit("{\"e\":\"IterCap\",\"it\":" + std::to_string(it) + "}");
          break;
        }
        nxt();
      }
    }
  } else if (op == "CI") {
    int it;
    ss >> it;
    if (idits.count(it)) {
      delete idits[it];
      idits.erase(it);
    }
    if (strits.count(it)) {
      delete strits[it];
      strits.erase(it);
    }
    emit("{\"e\":\"Close\",\"it\":" + std::to_string(it) + "}");
  } else if (op == "S") {
    int h, img;
    ss >> h >> img;
    std::stringstream out(std::ios::in | std::ios::out | std::ios::binary);
    objs[h]->save(out);
    images[img] = out.str();
    emit("{\"e\":\"Save\",\"h\":" + std::to_string(h) + ",\"img\":" + std::to_string(img) + ",\"bytes\":" + limbs(images[img].size()) + ",\"dg\":\"" +
         digest(images[img]) + "\",\"hd\":" + bytesj((const unsigned char *)images[img].data(), std::min<size_t>(28, images[img].size())) + "}");
  } else if (op == "DUMP") {
    // whole image as hex (used by the XBW array binding; not part of validated traces)
    int img;
    ss >> img;
    static const char *hexd = "0123456789abcdef";
    std::string hx;
    for (unsigned char c : images[img]) { hx += hexd[c >> 4]; hx += hexd[c & 15]; }
    emit("{\"e\":\"Image\",\"img\":" + std::to_string(img) + ",\"hex\":\"" + hx + "\"}");
  } else if (op == "CAT") {
    int st, img;
    ss >> st;
    std::string all;
    std::vector<int> ids;
    while (ss >> img) {
      all += images[img];
      ids.push_back(img);
    }
    streams[st] = new std::istringstream(all, std::ios::in | std::ios::binary);
    stream_imgs[st] = ids;
  } else if (op == "LG" || op == "LK") {
    std::string kind = "";
    int st, h;
    unsigned opt;
    if (op == "LK") ss >> kind;
    ss >> st >> h >> opt;
    std::istream &in = *streams[st];
    long long at = (long long)in.tellg();
    StringDictionary *d = op == "LG" ? StringDictionary::load(in, opt) : load_kind(kind, in, opt);
    bool good = in.good();
    long long end = good ? (long long)in.tellg() : -1;
    if (d) objs[h] = d;
    std::string ij = "[";
    for (size_t i = 0; i < stream_imgs[st].size(); i++) ij += (i ? "," : "") + std::to_string(stream_imgs[st][i]);
    emit("{\"e\":\"Load\",\"via\":\"" + std::string(op == "LG" ? "generic" : "kind") + "\",\"kind\":\"" + kind + "\",\"opt\":" + std::to_string(opt) +
         ",\"st\":" + std::to_string(st) + ",\"imgs\":" + ij + "],\"at\":" + limbs(at < 0 ? 0 : at) + ",\"null\":" + (d ? "0" : "1") + ",\"h\":" + std::to_string(h) +
         ",\"good\":" + (good ? "1" : "0") + ",\"end\":" + limbs(end < 0 ? 0 : end) + "}");
  } else if (op == "LT") {
    int img;
    unsigned long hi, lo;
    ss >> img >> hi >> lo;
    std::string b = images[img];
    uint32_t tag = (uint32_t)((hi << 16) | lo);
    if (b.size() >= 4) memcpy(&b[0], &tag, 4);
    std::istringstream in(b, std::ios::in | std::ios::binary);
    StringDictionary *d = StringDictionary::load(in, 1);
    emit("{\"e\":\"LoadTag\",\"img\":" + std::to_string(img) + ",\"tag\":[" + std::to_string(lo) + "," + std::to_string(hi) + "],\"null\":" + (d ? "0" : "1") + "}");
    delete d;
  } else if (op == "D") {
    int h;
    ss >> h;
    delete objs[h];
    objs.erase(h);
    emit("{\"e\":\"Destroy\",\"h\":" + std::to_string(h) + "}");
  } else if (op == "MA") {
    unsigned long v;
    ss >> v;
    libcsd_verif_memalloc_value = v;
    emit("{\"e\":\"MemAlloc\",\"v\":" + std::to_string(v) + "}");
  }
}

int main(int argc, char **argv) {
  if (argc < 3) {
    fprintf(stderr, "usage: driver PROGRAMS OUT [timeout]\n");
    return 2;
  }
  int tmo = argc > 3 ? atoi(argv[3]) : 10;
  std::ifstream in(argv[1]);
  FILE *out = fopen(argv[2], "w");
  std::string line;
  std::vector<std::string> prog;
  std::string pid_ = "";
  long nprog = 0, ncrash = 0, ntimeout = 0;
  auto run_prog = [&]() {
    if (pid_.empty()) return;
    nprog++;
    int fd[2];
    if (pipe(fd)) exit(2);
    fflush(out);
    pid_t pid = fork();
    if (pid == 0) {
      close(fd[0]);
      g_out = fd[1];
      alarm(tmo);
      int dn = open("/dev/null", O_WRONLY);
      dup2(dn, 1);
      dup2(dn, 2);
#if defined(__SANITIZE_ADDRESS__)
      __asan_set_error_report_callback(asan_cb);
#endif
      for (auto &l : prog) exec_line(l);
      _exit(0);
    }
    close(fd[1]);
    std::string buf;
    char tmp[65536];
    ssize_t k;
    while ((k = read(fd[0], tmp, sizeof tmp)) > 0) buf.append(tmp, k);
    close(fd[0]);
    int st = 0;
    waitpid(pid, &st, 0);
    fprintf(out, "{\"e\":\"Reset\",\"prog\":\"%s\"}\n", pid_.c_str());
    // drop the _op markers, remember the last one
    std::string last;
    int last_h = -1;
    size_t p = 0;
    while (p < buf.size()) {
      size_t e = buf.find('\n', p);
      if (e == std::string::npos) break;  // partial line of a dying child: dropped
      if (buf.compare(p, 11, "{\"e\":\"_op\",") == 0) {
        last_h = atoi(buf.c_str() + p + 15);
        size_t q = buf.find("\"l\":\"", p);
        last = buf.substr(q + 5, e - q - 5 - 2);
      }
      else fwrite(buf.data() + p, 1, e - p + 1, out);
      p = e + 1;
    }
    if (WIFSIGNALED(st)) {
      bool to = WTERMSIG(st) == SIGALRM;
      (to ? ntimeout : ncrash)++;
      fprintf(out, "{\"e\":\"%s\",\"sig\":%d,\"h\":%d,\"during\":\"%s\"}\n", to ? "timeout" : "crash", WTERMSIG(st), last_h, last.c_str());
    } else if (WEXITSTATUS(st) != 0) {
      ncrash++;
      fprintf(out, "{\"e\":\"crash\",\"sig\":0,\"exit\":%d,\"h\":%d,\"during\":\"%s\"}\n", WEXITSTATUS(st), last_h, last.c_str());
    }
    fprintf(out, "{\"e\":\"End\"}\n");
  };
  while (std::getline(in, line)) {
    if (line.empty()) continue;
    if (line[0] == 'P' && line.size() > 1 && line[1] == ' ') {
      run_prog();
      prog.clear();
      pid_ = line.substr(2);
    } else
      prog.push_back(line);
  }
  run_prog();
  fclose(out);
  printf("{\"programs\":%ld,\"crashed\":%ld,\"timeout\":%ld}\n", nprog, ncrash, ntimeout);
  return 0;
}
