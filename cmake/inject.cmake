# Injected through -DCMAKE_PROJECT_INCLUDE: adds the verification flags to every
# target of the repository's own CMake project without touching its lists.
if(DEFINED VERIF_FLAGS AND NOT _VERIF_FLAGS_DONE)
  set(_VERIF_FLAGS_DONE 1)
  separate_arguments(_vf NATIVE_COMMAND "${VERIF_FLAGS}")
  add_compile_options(${_vf})
endif()
