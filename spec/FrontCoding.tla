---------------------------- MODULE FrontCoding ----------------------------
(***************************************************************************)
(* Mechanism model (DESIGN 1/B): a functional transcription of the plain   *)
(* front-coding layout (StringDictionaryPFC constructor) and of            *)
(* locatePrefix - locateBoundaryBuckets (three binary searches over the    *)
(* bucket headers), searchPrefix, searchDistinctPrefix, VByte, the uint    *)
(* subtraction `scanneable - leftID` with wrap-around - with every read of *)
(* the text routed through Rd, so that an out-of-bounds read is a value    *)
(* (OOB) the invariant NoOOB can see.                                      *)
(*                                                                         *)
(* TLC checks, for ALL valid inputs S over Sigma with |S| <= MaxN, all     *)
(* bucket sizes and all patterns: RangeOK (the computed [left,right] is    *)
(* exactly the set of members prefixed by the pattern, C04) and NoOOB      *)
(* (no read outside the text, C04/C07).                                    *)
(*                                                                         *)
(* CONSTANT Fixed: TRUE = searchPrefix reports NORESULT when no string of  *)
(* the bucket is prefixed by the pattern (the code after commit 5f9f97d);  *)
(* FALSE = the original slip, kept so that the counterexample that         *)
(* crashed the real library (S = {a}, bucket 2, pattern b) stays           *)
(* checkable.                                                              *)
(***************************************************************************)
EXTENDS Naturals, Sequences, FiniteSets, TLC, SequencesExt, FiniteSetsExt
CONSTANTS Sigma, MaxLen, MaxN, Buckets, Fixed

Strs == UNION {[1..k -> Sigma] : k \in 1..MaxLen}
LexLess(a, b) == LET m == IF Len(a) < Len(b) THEN Len(a) ELSE Len(b)
                     D == {i \in 1..m : a[i] # b[i]}
                 IN IF D = {} THEN Len(a) < Len(b) ELSE a[Min(D)] < b[Min(D)]
SortedSeq(T) == SortSeq(SetToSeq(T), LexLess)
IsPrefixOf(p, s) == Len(p) <= Len(s) /\ \A i \in 1..Len(p) : p[i] = s[i]
Lcp(a, b) == LET m == IF Len(a) < Len(b) THEN Len(a) ELSE Len(b)
                 D == {i \in 1..m : a[i] # b[i]}
             IN IF D = {} THEN m ELSE Min(D) - 1

\* ---- layout (constructor) ----
RECURSIVE Lay(_, _, _, _, _)
\* i: next string index (1-based), text so far, bl: bucket offsets (bl[k] = offset of bucket k)
Lay(S, b, i, text, bl) ==
  IF i > Len(S) THEN [text |-> text, bl |-> bl]
  ELSE IF (i - 1) % b = 0
       THEN Lay(S, b, i + 1, text \o S[i] \o <<0>>, Append(bl, Len(text)))
       ELSE LET l == Lcp(S[i-1], S[i]) IN
            Lay(S, b, i + 1, text \o <<128 + l>> \o SubSeq(S[i], l + 1, Len(S[i])) \o <<0>>, bl)
Layout(S, b) == Lay(S, b, 1, <<>>, <<>>)

\* ---- reads ----
OOB == 999
Rd(text, pos) == IF pos < Len(text) THEN text[pos + 1] ELSE OOB     \* pos is 0-based

RECURSIVE CStr(_, _, _)
\* C string starting at pos: returns [s, oob]
CStr(text, pos, acc) == LET c == Rd(text, pos) IN
   IF c = OOB THEN [s |-> acc, oob |-> TRUE]
   ELSE IF c = 0 THEN [s |-> acc, oob |-> FALSE]
   ELSE CStr(text, pos + 1, Append(acc, c))

\* encoding of cmp: 0 equal, 1 greater, 2 less
Cmp(text, pos, str) == LET c == Rd(text, pos) IN
   IF Len(str) = 0 THEN 0 ELSE
   LET RECURSIVE go(_)
       go(k) == IF k > Len(str) THEN 0
                ELSE LET ch == Rd(text, pos + k - 1) IN
                     IF ch = 0 \/ ch = OOB THEN 2
                     ELSE IF ch # str[k] THEN (IF ch < str[k] THEN 2 ELSE 1)
                     ELSE go(k + 1)
   IN go(1)

\* ---- locateBoundaryBuckets ----
RECURSIVE BS1(_, _, _, _, _)
\* first binary search; returns [left,right,center,cmp]
BS1(L, p, left, right, last) ==
  IF left > right THEN [left |-> left, right |-> right, center |-> last.center, cmp |-> last.cmp]
  ELSE LET center == (left + right) \div 2
           cmp == Cmp(L.text, L.bl[center], p) IN
       IF cmp = 1 THEN BS1(L, p, left, center - 1, [center |-> center, cmp |-> cmp])
       ELSE IF cmp = 2 THEN BS1(L, p, center + 1, right, [center |-> center, cmp |-> cmp])
       ELSE [left |-> left, right |-> right, center |-> center, cmp |-> 0]
RECURSIVE BSL(_, _, _, _)
BSL(L, p, ll, lr) == IF ll > lr THEN lr
                     ELSE LET lc == (ll + lr) \div 2 IN
                          IF Cmp(L.text, L.bl[lc], p) = 0 THEN BSL(L, p, ll, lc - 1) ELSE BSL(L, p, lc + 1, lr)
RECURSIVE BSR(_, _, _, _)
BSR(L, p, rl, rr) == IF ~(rl < rr - 1) THEN rl
                     ELSE LET rc == (rl + rr) \div 2 IN
                          IF Cmp(L.text, L.bl[rc], p) = 0 THEN BSR(L, p, rc, rr) ELSE BSR(L, p, rl, rc)
Boundary(L, p, buckets) ==
  LET r == BS1(L, p, 1, buckets, [center |-> 0, cmp |-> 0]) IN
  IF r.cmp # 0 THEN (IF r.cmp = 2 THEN [left |-> r.center, right |-> r.center]
                     ELSE [left |-> r.center - 1, right |-> r.center - 1])
  ELSE LET lft == IF r.center > 1
                  THEN LET lr == BSL(L, p, r.left, r.center - 1) IN IF lr > 0 THEN lr ELSE 1
                  ELSE r.left
           rgt == IF r.center < buckets THEN BSR(L, p, r.center, r.right + 1) ELSE r.right
       IN [left |-> lft, right |-> rgt]

\* ---- in-bucket scans ----
\* state of a scan: ptr (0-based into text), decoded (current string), oob flag
Header(L, k) == LET h == CStr(L.text, L.bl[k], <<>>) IN
                [ptr |-> L.bl[k] + Len(h.s) + 1, dec |-> h.s, oob |-> h.oob]
RECURSIVE VBd(_, _, _, _, _)
VBd(text, ptr, acc, mul, used) == LET c == Rd(text, ptr) IN
   IF c = OOB THEN [v |-> acc, used |-> used + 1, oob |-> TRUE]
   ELSE IF c >= 128 THEN [v |-> acc + (c - 128) * mul, used |-> used + 1, oob |-> FALSE]
   ELSE VBd(text, ptr + 1, acc + c * mul, mul * 128, used + 1)
VB(text, ptr) == VBd(text, ptr, 0, 1, 0)
DecodeNext(text, ptr, lenPrefix, dec) ==
   LET sfx == CStr(text, ptr, <<>>) IN
   [ptr |-> ptr + Len(sfx.s) + 1, dec |-> SubSeq(dec, 1, lenPrefix) \o sfx.s, oob |-> sfx.oob]

\* longestCommonPrefix(decoded+sharedCurr, str+sharedCurr, decLen-sharedCurr, &sharedCurr): returns [cmp, shared]
LCPcmp(dec, str, shared) ==
   LET n == Len(dec) - shared
       D == {i \in 1..n : (IF shared + i <= Len(str) THEN str[shared + i] ELSE 0) # dec[shared + i]} IN
   IF D = {} THEN [cmp |-> 0, shared |-> shared + n]
   ELSE LET i == Min(D)
            sc == IF shared + i <= Len(str) THEN str[shared + i] ELSE 0 IN
        [cmp |-> IF dec[shared + i] > sc THEN 1 ELSE 2, shared |-> shared + i - 1]

RECURSIVE SP(_, _, _, _, _, _, _, _)
\* searchPrefix: returns [id, ptr, dec, oob]
SP(text, ptr, dec, str, scanneable, id, sharedCurr, oob) ==
   LET r == LCPcmp(dec, str, sharedCurr) IN
   IF r.shared = Len(str) THEN [id |-> id, ptr |-> ptr, dec |-> dec, oob |-> oob]
   ELSE LET id2 == id + 1 IN
        IF r.cmp = 1 \/ id2 > scanneable THEN [id |-> IF Fixed THEN 0 ELSE id2, ptr |-> ptr, dec |-> dec, oob |-> oob]
        ELSE LET vb == VB(text, ptr) IN
             IF vb.v < r.shared THEN [id |-> IF Fixed THEN 0 ELSE id2, ptr |-> ptr + vb.used, dec |-> dec, oob |-> oob \/ vb.oob]
             ELSE LET d == DecodeNext(text, ptr + vb.used, vb.v, dec) IN
                  SP(text, d.ptr, d.dec, str, scanneable, id2, r.shared, oob \/ vb.oob \/ d.oob)

RECURSIVE SDP(_, _, _, _, _, _, _)
\* searchDistinctPrefix: for (id = 1; id <= scanneable; id++) { decode lenPrefix; if (lenPrefix < strLen) break; decodeNext }
SDP(text, ptr, dec, strLen, scanneable, id, oob) ==
   IF id > scanneable THEN [id |-> id, oob |-> oob]
   ELSE LET vb == VB(text, ptr) IN
        IF vb.v < strLen THEN [id |-> id, oob |-> oob \/ vb.oob]
        ELSE LET d == DecodeNext(text, ptr + vb.used, vb.v, dec) IN
             SDP(text, d.ptr, d.dec, strLen, scanneable, id + 1, oob \/ vb.oob \/ d.oob)

USub(x, y) == IF x >= y THEN x - y ELSE 1000000   \* uint wrap-around
Scanneable(k, buckets, n, b) == IF k = buckets /\ n % b # 0 THEN n % b ELSE b

\* locatePrefix: returns [left, right, oob]
LocatePrefix(S, b, p) ==
  LET L == Layout(S, b)
      n == Len(S)
      buckets == Len(L.bl)
      bb == Boundary(L, p, buckets) IN
  IF bb.left = 0 THEN [left |-> 0, right |-> 0, oob |-> FALSE]
  ELSE LET h == Header(L, bb.left)
           sc == Scanneable(bb.left, buckets, n, b) IN
       IF bb.left = bb.right
       THEN LET sp == SP(L.text, h.ptr, h.dec, p, sc, 1, 0, h.oob) IN
            \* "if (leftID == NORESULT)" : searchPrefix never returns 0 in the C code; transcribed literally
            IF sp.id = 0 THEN [left |-> 0, right |-> 0, oob |-> sp.oob]
            ELSE LET sd == SDP(L.text, sp.ptr, sp.dec, Len(p), USub(sc, sp.id), 1, sp.oob) IN
                 [left |-> sp.id + (bb.left - 1) * b, right |-> sp.id + sd.id - 1 + (bb.right - 1) * b, oob |-> sd.oob]
       ELSE LET sp == SP(L.text, h.ptr, h.dec, p, sc, 1, 0, h.oob)
                leftID == IF sp.id = 0 THEN bb.left * b + 1 ELSE sp.id + (bb.left - 1) * b
                h2 == Header(L, bb.right)
                sc2 == Scanneable(bb.right, buckets, n, b)
                sd == SDP(L.text, h2.ptr, h2.dec, Len(p), sc2 - 1, 1, h2.oob) IN
            [left |-> leftID, right |-> sd.id + (bb.right - 1) * b, oob |-> sp.oob \/ sd.oob]

Expected(S, p) == {i \in 1..Len(S) : IsPrefixOf(p, S[i])}

VARIABLES S, b, p
Init == /\ \E T \in SUBSET Strs : Cardinality(T) \in 1..MaxN /\ S = SortedSeq(T)
        /\ b \in Buckets /\ p \in Strs
Next == UNCHANGED <<S, b, p>>
Spec == Init /\ [][Next]_<<S, b, p>>
R == LocatePrefix(S, b, p)
RangeOK == LET e == Expected(S, p) r == R IN
           IF e = {} THEN (r.left = 0 \/ r.left > r.right) ELSE r.left = Min(e) /\ r.right = Max(e)
NoOOB == ~R.oob
Inv == RangeOK /\ NoOOB

-----------------------------------------------------------------------------
(* locate (locateBucket + in-bucket scan) and extract, transcribed the same way  *)

\* strcmp(text + pos, q): 0 equal, 1 text greater, 2 text less (unsigned bytes; q is NUL terminated)
RECURSIVE StrCmp(_, _, _, _)
StrCmp(text, pos, q, k) ==
  LET c == Rd(text, pos + k - 1)  d == IF k <= Len(q) THEN q[k] ELSE 0 IN
  IF c = OOB THEN 2
  ELSE IF c # d THEN (IF c > d THEN 1 ELSE 2)
  ELSE IF c = 0 THEN 0 ELSE StrCmp(text, pos, q, k + 1)

RECURSIVE LB(_, _, _, _, _, _)
\* locateBucket: returns [found, bucket]
LB(L, q, left, right, center, cmp) ==
  IF left > right THEN [found |-> FALSE, bucket |-> IF cmp = 2 THEN center ELSE center - 1]
  ELSE LET c == (left + right) \div 2
           r == StrCmp(L.text, L.bl[c], q, 1) IN
       IF r = 1 THEN LB(L, q, left, c - 1, c, r)
       ELSE IF r = 2 THEN LB(L, q, c + 1, right, c, r)
       ELSE [found |-> TRUE, bucket |-> c]

\* longestCommonPrefix(decoded + shared, str + shared, decLen - shared + 1, &shared): the decoded string is
\* compared including its terminator; returns [cmp, shared, qoob] (qoob: the query was read past its NUL)
LCPq(dec, q, shared) ==
  LET n == Len(dec) - shared + 1
      D(i) == IF shared + i <= Len(dec) THEN dec[shared + i] ELSE 0
      Q(i) == IF shared + i <= Len(q) THEN q[shared + i] ELSE 0
      Df == {i \in 1..n : D(i) # Q(i)}
      stop == IF Df = {} THEN n ELSE Min(Df)
  IN  [cmp |-> IF Df = {} THEN 0 ELSE IF D(Min(Df)) > Q(Min(Df)) THEN 1 ELSE 2,
       shared |-> IF Df = {} THEN shared + n ELSE shared + Min(Df) - 1,
       qoob |-> shared + stop > Len(q) + 1]

RECURSIVE Scan(_, _, _, _, _, _, _, _, _)
\* the loop `for (i = 2; i < scanneable; i++)` of locate; returns [id, oob]
Scan(text, ptr, dec, q, scanneable, i, sharedCurr, cmp, oob) ==
  IF i >= scanneable THEN [id |-> 0, oob |-> oob]
  ELSE LET vb == VB(text, ptr) IN
       IF vb.v < sharedCurr THEN [id |-> 0, oob |-> oob \/ vb.oob]
       ELSE LET d == DecodeNext(text, ptr + vb.used, vb.v, dec)
                r == IF vb.v = sharedCurr THEN LCPq(d.dec, q, sharedCurr) ELSE [cmp |-> cmp, shared |-> sharedCurr, qoob |-> FALSE]
                o2 == oob \/ vb.oob \/ d.oob \/ r.qoob IN
            IF r.cmp = 0 THEN [id |-> i + 1, oob |-> o2]
            ELSE IF r.cmp = 1 THEN [id |-> 0, oob |-> o2]
            ELSE Scan(text, d.ptr, d.dec, q, scanneable, i + 1, r.shared, r.cmp, o2)

Locate(SS, bsz, q) ==
  LET L == Layout(SS, bsz)  n == Len(SS)  buckets == Len(L.bl)
      lb == LB(L, q, 1, buckets, 0, 0) IN
  IF lb.found THEN [id |-> (lb.bucket - 1) * bsz + 1, oob |-> FALSE]
  ELSE IF lb.bucket = 0 THEN [id |-> 0, oob |-> FALSE]
  ELSE LET h == Header(L, lb.bucket)
           sc == Scanneable(lb.bucket, buckets, n, bsz) IN
       IF sc <= 1 THEN [id |-> 0, oob |-> h.oob]
       ELSE LET vb == VB(L.text, h.ptr)
                d == DecodeNext(L.text, h.ptr + vb.used, vb.v, h.dec)
                r == LCPq(d.dec, q, 0)
                o == h.oob \/ vb.oob \/ d.oob \/ r.qoob IN
            IF r.cmp = 0 THEN [id |-> (lb.bucket - 1) * bsz + 2, oob |-> o]
            ELSE LET sres == Scan(L.text, d.ptr, d.dec, q, sc, 2, r.shared, r.cmp, o) IN
                 [id |-> IF sres.id = 0 THEN 0 ELSE (lb.bucket - 1) * bsz + sres.id, oob |-> sres.oob]

RECURSIVE Walk(_, _, _, _, _)
Walk(text, ptr, dec, k, oob) == IF k = 0 THEN [s |-> dec, oob |-> oob]
                                ELSE LET vb == VB(text, ptr)
                                         d == DecodeNext(text, ptr + vb.used, vb.v, dec)
                                     IN  Walk(text, d.ptr, d.dec, k - 1, oob \/ vb.oob \/ d.oob)
Extract(SS, bsz, id) ==
  LET L == Layout(SS, bsz)
      h == Header(L, 1 + ((id - 1) \div bsz)) IN
  Walk(L.text, h.ptr, h.dec, (id - 1) % bsz, h.oob)

\* C01 / C02 / C03 for the plain front-coding kind: locate is the rank or 0, extract is the i-th string
LocateOK  == LET r == Locate(S, b, p)
                 idx == {i \in 1..Len(S) : S[i] = p} IN
             /\ ~r.oob
             /\ r.id = (IF idx = {} THEN 0 ELSE Min(idx))
ExtractOK == \A i \in 1..Len(S) : LET e == Extract(S, b, i) IN ~e.oob /\ e.s = S[i]

-----------------------------------------------------------------------------
(* The string iterator (IteratorDictStringPFC) as extractPrefix / extractTable start it: at bucket    *)
(* `leftbucket`, discarding `offset` strings, with the re-synchronisation `pos % bucketsize == 0`      *)
(* at every bucket end.  The stream of `count` strings from ID `first` must be S[first..first+count-1] *)
(* (C13: scans starting at any in-bucket offset) without reading outside the text.                     *)
RECURSIVE ItNext(_, _, _, _, _, _, _, _)
\* returns [out, oob]; ptr 0-based, pos = position inside the bucket, dec = current string
ItNext(text, bsz, ptr, pos, dec, remaining, out, oob) ==
  IF remaining = 0 THEN [out |-> out, oob |-> oob]
  ELSE IF pos % bsz = 0
       THEN LET hd == CStr(text, ptr, <<>>) IN
            ItNext(text, bsz, ptr + Len(hd.s) + 1, 1, hd.s, remaining - 1, Append(out, hd.s), oob \/ hd.oob)
       ELSE LET vb == VB(text, ptr)
                d == DecodeNext(text, ptr + vb.used, vb.v, dec) IN
            ItNext(text, bsz, d.ptr, pos + 1, d.dec, remaining - 1, Append(out, d.dec), oob \/ vb.oob \/ d.oob)
IterStrings(SS, bsz, first, count) ==
  LET L == Layout(SS, bsz)
      lb == 1 + ((first - 1) \div bsz)
      off == (first - 1) % bsz IN
  IF off = 0 THEN ItNext(L.text, bsz, L.bl[lb], 0, <<>>, count, <<>>, FALSE)
  ELSE LET h == Header(L, lb)
           w == IF off > 1 THEN LET RECURSIVE Skip(_, _, _, _)
                                    Skip(ptr, dec, k, oob) == IF k = 0 THEN [ptr |-> ptr, dec |-> dec, oob |-> oob]
                                                              ELSE LET vb == VB(L.text, ptr)
                                                                       d == DecodeNext(L.text, ptr + vb.used, vb.v, dec)
                                                                   IN  Skip(d.ptr, d.dec, k - 1, oob \/ vb.oob \/ d.oob)
                                IN  Skip(h.ptr, h.dec, off - 1, h.oob)
                ELSE [ptr |-> h.ptr, dec |-> h.dec, oob |-> h.oob] IN
       ItNext(L.text, bsz, w.ptr, off, w.dec, count, <<>>, w.oob)
IterOK == /\ LET t == IterStrings(S, b, 1, Len(S)) IN ~t.oob /\ t.out = S                                   \* extractTable
          /\ \A f \in 1..Len(S) : LET t == IterStrings(S, b, f, Len(S) - f + 1) IN ~t.oob /\ t.out = SubSeq(S, f, Len(S))
          /\ LET r == R IN (r.left > 0 /\ r.left <= r.right /\ r.right <= Len(S)) =>
                LET t == IterStrings(S, b, r.left, r.right - r.left + 1) IN ~t.oob /\ t.out = SubSeq(S, r.left, r.right)
Inv2 == Inv /\ LocateOK /\ ExtractOK /\ IterOK
=============================================================================
