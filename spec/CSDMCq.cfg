SPECIFICATION Spec
CONSTANTS Strs <- QStrs
          KindPars <- QKindPars
          Handles = {1, 2}
          ItHandles = {1}
          MaxImgs = 1
INVARIANT Inv
PROPERTY Immutable
PROPERTY ImagesAppendOnly
PROPERTY IterShrinks
PROPERTY DeadStaysDead
VIEW View
CONSTRAINT Bound
CHECK_DEADLOCK FALSE
