------------------------------ MODULE HashProbe ------------------------------
(***************************************************************************)
(* Mechanism model of the open-addressing tables behind the four hash      *)
(* kinds (Hash/Hashdh.cpp, Hash/HashDAC.cpp, Hash/HashUtils.h):            *)
(*   insert(k): cell h1(k); if occupied probe (cell + i*h2(k)) mod tsize   *)
(*              for i = 1..tsize-1; "table full" if none is free           *)
(*   search(k): same probe sequence, stops at the first empty cell         *)
(*   ID of a key = rank of its cell among the occupied cells (bitmap rank) *)
(*   tsize = nearest_prime(n * (1 + overhead/100))                         *)
(* h1 and h2 are arbitrary functions (all of them are enumerated), so the  *)
(* result does not depend on the hash functions being good.                *)
(* TLC checks for every table size in TSizes, every n <= tsize and every   *)
(* (h1, h2): if tsize is prime no insert fails, every key is found, IDs    *)
(* are a bijection onto 1..n, an absent key is never found (C01, C02,      *)
(* C12: independent of the overhead).  For composite sizes the check must  *)
(* fail (kept as a vacuity test: it is what nearest_prime protects from).  *)
(* NearestPrime transcribes nearest_prime() and is checked to return a     *)
(* prime >= n; the real function is validated against it by CompTrace.     *)
(***************************************************************************)
EXTENDS Naturals, Sequences, FiniteSets, Primes

CONSTANTS TSizes, MaxKeys

VARIABLES tsize, n, h1, h2
vars == <<tsize, n, h1, h2>>
Keys == 1..(n + 1)            \* key n+1 is the absent probe

Init == /\ tsize \in TSizes /\ n \in 1..MaxKeys /\ n <= tsize
        /\ h1 \in [1..(n + 1) -> 0..(tsize - 1)]
        /\ h2 \in [1..(n + 1) -> IF tsize = 1 THEN {0} ELSE 1..(tsize - 1)]
Next == UNCHANGED vars
Spec == Init /\ [][Next]_vars

Empty == 0
\* probe sequence of key k: cells visited in order
Probe(k) == [i \in 0..(tsize - 1) |-> (h1[k] + i * h2[k]) % tsize]
\* insert key k into table t (function cell -> key or Empty); returns <<table, ok>>
InsertKey(t, k) ==
  LET free == {i \in 0..(tsize - 1) : t[Probe(k)[i]] = Empty}
  IN  IF free = {} THEN <<t, FALSE>>
      ELSE LET i == CHOOSE x \in free : \A y \in free : x <= y
           IN  <<[t EXCEPT ![Probe(k)[i]] = k], TRUE>>
RECURSIVE InsertAll(_, _, _)
InsertAll(t, k, ok) == IF k > n THEN <<t, ok>>
                       ELSE LET r == InsertKey(t, k) IN InsertAll(r[1], k + 1, ok /\ r[2])
Table == InsertAll([c \in 0..(tsize - 1) |-> Empty], 1, TRUE)
\* search: cell where k is found, or -1 (represented as tsize)
Search(t, k) ==
  LET hit == {i \in 0..(tsize - 1) : t[Probe(k)[i]] = k /\ \A j \in 0..(i - 1) : t[Probe(k)[j]] # Empty}
  IN  IF hit = {} THEN tsize ELSE Probe(k)[CHOOSE x \in hit : \A y \in hit : x <= y]
IdOf(t, cell) == Cardinality({c \in 0..cell : t[c] # Empty})

Correct ==
  LET T == Table t == T[1] IN
  /\ T[2]                                                         \* no "table full"
  /\ \A k \in 1..n : Search(t, k) < tsize /\ t[Search(t, k)] = k    \* C01: every member is found
  /\ \A j, k \in 1..n : j # k => IdOf(t, Search(t, j)) # IdOf(t, Search(t, k))
  /\ \A k \in 1..n : IdOf(t, Search(t, k)) \in 1..n                  \* IDs are a bijection onto 1..n
  /\ Search(t, n + 1) = tsize                                      \* C02: the absent key is not found
PrimeSizesCorrect == IsPrime(tsize) \/ tsize = 1 => Correct
AnySizeCorrect == Correct
PrimeContract == \A m \in 1..400 : NearestPrimeOK(m)
=============================================================================
