----------------------------- MODULE IntCodecs -----------------------------
(***************************************************************************)
(* C17: the integer containers and codecs, as definitions on bit lists     *)
(* (values up to 64 bits do not fit TLC integers, so every wide value is a *)
(* little-endian list of 16-bit limbs and is handled bit-wise).            *)
(*   VByte       7-bit groups, least significant group first, the last     *)
(*               group carries the 0x80 terminator flag                    *)
(*   LogSequence an array of w-bit fields: get returns the value last set  *)
(*   DAC_VLS     Access(lists, i) = lists[i]                               *)
(***************************************************************************)
EXTENDS Naturals, Sequences

Pow2(k) == CASE k = 0 -> 1 [] k = 1 -> 2 [] k = 2 -> 4 [] k = 3 -> 8 [] k = 4 -> 16 [] k = 5 -> 32 [] k = 6 -> 64
             [] k = 7 -> 128 [] k = 8 -> 256 [] k = 9 -> 512 [] k = 10 -> 1024 [] k = 11 -> 2048 [] k = 12 -> 4096
             [] k = 13 -> 8192 [] k = 14 -> 16384 [] k = 15 -> 32768 [] k = 16 -> 65536
Bits16(x) == [i \in 1..16 |-> (x \div Pow2(i - 1)) % 2]
RECURSIVE LimbsToBits(_)
LimbsToBits(L) == IF L = <<>> THEN <<>> ELSE Bits16(Head(L)) \o LimbsToBits(Tail(L))     \* least significant bit first
RECURSIVE TrimBits(_)
TrimBits(b) == IF b = <<>> THEN <<>> ELSE IF b[Len(b)] = 0 THEN TrimBits(SubSeq(b, 1, Len(b) - 1)) ELSE b
\* value of at most 16 bits (LSB first)
RECURSIVE BitsVal(_)
BitsVal(b) == IF b = <<>> THEN 0 ELSE b[1] + 2 * BitsVal(Tail(b))
SameValue(L, M) == TrimBits(LimbsToBits(L)) = TrimBits(LimbsToBits(M))

\* ---- VByte
VBGroups(b) == LET k == IF Len(b) = 0 THEN 1 ELSE (Len(b) + 6) \div 7
               IN  [j \in 1..k |-> SubSeq(b \o <<0, 0, 0, 0, 0, 0, 0>>, 7 * (j - 1) + 1, 7 * j)]
VBEncode(L) == LET g == VBGroups(TrimBits(LimbsToBits(L)))
               IN  [j \in 1..Len(g) |-> BitsVal(g[j]) + (IF j = Len(g) THEN 128 ELSE 0)]
\* decoding of a byte sequence that ends at its first byte >= 128: bits LSB first
RECURSIVE VBDecodeBits(_)
VBDecodeBits(bytes) == IF bytes = <<>> THEN <<>>
                       ELSE LET x == Head(bytes) % 128
                                seven == [i \in 1..7 |-> (x \div Pow2(i - 1)) % 2]
                            IN  IF Head(bytes) >= 128 THEN seven ELSE seven \o VBDecodeBits(Tail(bytes))
\* theorem checked by TLC on the scaled model (IntCodecsMC): decoding inverts encoding, byte counts agree
VBRoundTrip(L) == TrimBits(VBDecodeBits(VBEncode(L))) = TrimBits(LimbsToBits(L))
=============================================================================
