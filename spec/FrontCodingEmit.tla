-------------------------- MODULE FrontCodingEmit --------------------------
(***************************************************************************)
(* FrontCoding.tla with one output: for every (member set, bucket size)    *)
(* TLC enumerates, the layout the model computes (the encoded text and the *)
(* bucket offsets) is printed as JSON.  lib/checks/csd.py                  *)
(* (pfc_image_binding) lets the real StringDictionaryPFC constructor build *)
(* the same dictionary, decodes the image it saves (text bytes and the     *)
(* LogSequence of bucket offsets) and compares the two: the binding of the *)
(* mechanism model to the constructor.                                     *)
(***************************************************************************)
EXTENDS FrontCoding, Json
FirstPat == CHOOSE q \in Strs : Len(q) = 1 /\ \A r \in Strs : Len(r) = 1 => q[1] <= r[1]
EmitOK == (p = FirstPat) =>
          LET L == Layout(S, b) IN
          PrintT(<<"PFCIMG", ToJson([S |-> S, b |-> b, text |-> L.text, bl |-> L.bl])>>)
=============================================================================
