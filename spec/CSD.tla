------------------------------- MODULE CSD -------------------------------
(***************************************************************************)
(* Reference model of the public API of libCSD (StringDictionary and its   *)
(* 13 kinds): which dictionaries, saved images and iterators exist, what   *)
(* set of strings and which ID assignment each dictionary denotes, and,    *)
(* for every public operation, the allowed response.                       *)
(*                                                                         *)
(* A dictionary denotes (S, table): S the sorted input, table a bijection  *)
(* 1..n -> S.  For the order-preserving kinds table = S; for the hash      *)
(* kinds, the block kind and XBW any bijection is allowed (it is chosen at *)
(* Build and then fixed: save/load preserve it).                           *)
(*                                                                         *)
(* The answer operators (IdOf, StrOf, PrefixIds, ...) are what CSDTrace    *)
(* evaluates over recorded executions of the real library.                 *)
(***************************************************************************)
EXTENDS CSDBase

-----------------------------------------------------------------------------
(* The state machine (design level; constants bound the universe)            *)
CONSTANTS Strs,        \* universe of byte strings used as members and patterns
          KindPars,    \* set of <<kind, par>> pairs that may be built
          Handles, ItHandles, MaxImgs

VARIABLES objs,    \* [live or dead handles -> [kind, par, S, table, origin, alive]]
          imgs,    \* sequence of saved images [kind, par, S, table]
          iters,   \* [open iterator handles -> [h, type, pending]]
          resp     \* last response (observation only)
vars == <<objs, imgs, iters, resp>>

Perms(S) == {t \in [1..Len(S) -> Range(S)] : \A i, j \in 1..Len(S) : t[i] = t[j] => i = j}
RECURSIVE SortSet(_)
SortSet(T) == IF T = {} THEN <<>>
              ELSE LET mn == CHOOSE x \in T : \A y \in T : x = y \/ LexLess(x, y)
                   IN  <<mn>> \o SortSet(T \ {mn})
Live(h) == h \in DOMAIN objs /\ objs[h].alive

Init == objs = <<>> /\ imgs = <<>> /\ iters = <<>> /\ resp = [op |-> "init"]

Build(h, kp, T, t) ==
  /\ h \notin DOMAIN objs /\ T # {}
  /\ LET S == SortSet(T) par == Clamp(kp[1], kp[2]) IN
       /\ ValidInput(S) /\ LegalPar(kp[1], par)
       /\ t \in Perms(S) /\ (kp[1] \in Ordered => t = S)
       /\ objs' = [x \in DOMAIN objs \cup {h} |-> IF x = h THEN [kind |-> kp[1], par |-> par, S |-> S, table |-> t,
                                                                  origin |-> "built", alive |-> TRUE] ELSE objs[x]]
  /\ resp' = [op |-> "build", h |-> h] /\ UNCHANGED <<imgs, iters>>

Query(r) == resp' = r /\ UNCHANGED <<objs, imgs, iters>>
NumElements(h)    == Live(h) /\ Query([op |-> "numElements", r |-> N(objs[h])])
MaxLength(h)      == Live(h) /\ \E r \in {MaxLen(objs[h].S), MaxLen(objs[h].S) + 1} : Query([op |-> "maxLength", r |-> r])
Locate(h, q)      == Live(h) /\ Query([op |-> "locate", r |-> IdOf(objs[h], q), pat |-> q])
Extract(h, i)     == Live(h) /\ Query([op |-> "extract", r |-> StrOf(objs[h], i)])
LocateRank(h, k)  == Live(h) /\ Query([op |-> "locateRank", r |-> IF HasRank(objs[h]) THEN RankId(objs[h], k) ELSE 0])
ExtractRank(h, k) == Live(h) /\ Query([op |-> "extractRank", r |-> IF HasRank(objs[h]) THEN RankStr(objs[h], k) ELSE <<>>])

Open(it, h, type, pending, op) ==
  /\ it \notin DOMAIN iters
  /\ iters' = [x \in DOMAIN iters \cup {it} |-> IF x = it THEN [h |-> h, type |-> type, pending |-> pending,
                                                                  scan |-> op = "extractTable"] ELSE iters[x]]
  /\ resp' = [op |-> op, it |-> it] /\ UNCHANGED <<objs, imgs>>
Unsupported(op) == resp' = [op |-> op, null |-> TRUE] /\ UNCHANGED <<objs, imgs, iters>>

LocatePrefix(h, it, p)  == Live(h) /\ IF HasPrefix(objs[h]) THEN Open(it, h, "id", PrefixIds(objs[h], p), "locatePrefix") ELSE Unsupported("locatePrefix")
ExtractPrefix(h, it, p) == Live(h) /\ IF HasPrefix(objs[h]) THEN Open(it, h, "str", PrefixIds(objs[h], p), "extractPrefix") ELSE Unsupported("extractPrefix")
LocateSubstr(h, it, p)  == Live(h) /\ IF HasSubstr(objs[h]) THEN Open(it, h, "id", SubstrIds(objs[h], p), "locateSubstr") ELSE Unsupported("locateSubstr")
ExtractSubstr(h, it, p) == Live(h) /\ IF HasSubstr(objs[h]) THEN Open(it, h, "str", SubstrIds(objs[h], p), "extractSubstr") ELSE Unsupported("extractSubstr")
ExtractTable(h, it)     == Live(h) /\ IF HasTable(objs[h]) THEN Open(it, h, "str", 1..N(objs[h]), "extractTable") ELSE Unsupported("extractTable")

\* which pending element may come next: the smallest for order-preserving kinds and for table scans
\* (the k-th string of a table scan is extract(k) for every kind), any element otherwise
HasNext(it) == it \in DOMAIN iters /\ resp' = [op |-> "hasNext", r |-> iters[it].pending # {}] /\ UNCHANGED <<objs, imgs, iters>>
Next1(it)   == /\ it \in DOMAIN iters /\ iters[it].pending # {}
               /\ \E e \in iters[it].pending :
                    /\ (objs[iters[it].h].kind \in Ordered \/ iters[it].scan => \A x \in iters[it].pending : e <= x)
                    /\ iters' = [iters EXCEPT ![it].pending = @ \ {e}]
                    /\ resp' = [op |-> "next", r |-> IF iters[it].type = "id" THEN e ELSE objs[iters[it].h].table[e]]
               /\ UNCHANGED <<objs, imgs>>
Close(it)   == /\ it \in DOMAIN iters /\ iters' = [x \in DOMAIN iters \ {it} |-> iters[x]]
               /\ resp' = [op |-> "close"] /\ UNCHANGED <<objs, imgs>>

Image(o) == [kind |-> o.kind, par |-> o.par, S |-> o.S, table |-> o.table]
Save(h)  == /\ Live(h) /\ Len(imgs) < MaxImgs
            /\ imgs' = Append(imgs, Image(objs[h]))
            /\ resp' = [op |-> "save", img |-> Len(imgs) + 1] /\ UNCHANGED <<objs, iters>>       \* C08: objs unchanged
Loaded(h, im) == objs' = [x \in DOMAIN objs \cup {h} |-> IF x = h THEN [kind |-> im.kind, par |-> im.par, S |-> im.S, table |-> im.table,
                                                                         origin |-> "loaded", alive |-> TRUE] ELSE objs[x]]
LoadGeneric(h, i, opt) ==
  /\ h \notin DOMAIN objs /\ i \in 1..Len(imgs) /\ opt \in 1..3
  /\ IF imgs[i].kind \in GenericKinds
       THEN Loaded(h, imgs[i]) /\ resp' = [op |-> "load", h |-> h]
       ELSE UNCHANGED objs /\ resp' = [op |-> "load", null |-> TRUE]
  /\ UNCHANGED <<imgs, iters>>
LoadKind(k, h, i, opt) ==
  /\ h \notin DOMAIN objs /\ i \in 1..Len(imgs) /\ opt \in 1..3
  /\ IF imgs[i].kind = k
       THEN Loaded(h, imgs[i]) /\ resp' = [op |-> "load", h |-> h]
       ELSE UNCHANGED objs /\ resp' = [op |-> "load", null |-> TRUE]           \* C16: another kind's image
  /\ UNCHANGED <<imgs, iters>>
Destroy(h) == /\ Live(h) /\ \A it \in DOMAIN iters : iters[it].h # h           \* iterators are closed first
              /\ objs' = [objs EXCEPT ![h].alive = FALSE]
              /\ resp' = [op |-> "destroy"] /\ UNCHANGED <<imgs, iters>>

Pars == {kp[2] : kp \in KindPars}
Next ==
  \/ \E h \in Handles, kp \in KindPars, T \in SUBSET Strs : \E t \in Perms(SortSet(T)) : Build(h, kp, T, t)
  \/ \E h \in Handles : NumElements(h) \/ MaxLength(h) \/ Save(h) \/ Destroy(h)
  \/ \E h \in Handles, q \in Strs : Locate(h, q)
  \/ \E h \in Handles, i \in 0..(Cardinality(Strs) + 1) : Extract(h, i) \/ LocateRank(h, i) \/ ExtractRank(h, i)
  \/ \E h \in Handles, it \in ItHandles, p \in Strs : LocatePrefix(h, it, p) \/ ExtractPrefix(h, it, p) \/ LocateSubstr(h, it, p) \/ ExtractSubstr(h, it, p)
  \/ \E h \in Handles, it \in ItHandles : ExtractTable(h, it)
  \/ \E it \in ItHandles : HasNext(it) \/ Next1(it) \/ Close(it)
  \/ \E h \in Handles, i \in 1..MaxImgs, opt \in 1..3 : LoadGeneric(h, i, opt) \/ \E k \in {kp[1] : kp \in KindPars} : LoadKind(k, h, i, opt)

Spec == Init /\ [][Next]_vars

-----------------------------------------------------------------------------
(* Properties (checked by TLC on the small-scope universe)                   *)
TypeOK == \A h \in DOMAIN objs : objs[h].kind \in Kinds /\ ValidInput(objs[h].S)
\* C01: the ID table is a bijection 1..n <-> S, for built and loaded objects alike
Bijection == \A h \in DOMAIN objs : IsBijection(objs[h])
RoundTrip == \A h \in DOMAIN objs : LET o == objs[h] IN
               /\ \A i \in 1..N(o) : IdOf(o, StrOf(o, i)) = i
               /\ \A i \in 1..N(o) : StrOf(o, IdOf(o, o.S[i])) = o.S[i] /\ IdOf(o, o.S[i]) \in 1..N(o)
\* C02
NoFalsePositive == \A h \in DOMAIN objs : \A q \in Strs : q \notin Range(objs[h].S) => IdOf(objs[h], q) = 0
\* C03: order-preserving kinds number by rank, so locate is monotone
RankNumbering == \A h \in DOMAIN objs : LET o == objs[h] IN o.kind \in Ordered =>
                   /\ \A i \in 1..N(o) : StrOf(o, i) = o.S[i]
                   /\ \A i, j \in 1..N(o) : LexLess(o.S[i], o.S[j]) => IdOf(o, o.S[i]) < IdOf(o, o.S[j])
                   /\ \A k \in 1..N(o) : StrOf(o, RankId(o, k)) = RankStr(o, k)
\* C04: for sorted S the prefix result of an order-preserving kind is one contiguous range
PrefixInterval == \A h \in DOMAIN objs : objs[h].kind \in Ordered => \A p \in Strs : IsInterval(PrefixIds(objs[h], p))
\* C06 / C08 / C14: images and loaded objects denote what was saved; saving and querying change nothing
ImagesDenote  == \A i \in 1..Len(imgs) : \E h \in DOMAIN objs : Image(objs[h]) = imgs[i]
Immutable     == [][\A h \in DOMAIN objs : h \in DOMAIN objs' /\ Image(objs'[h]) = Image(objs[h])]_vars
\* C08: an image, once written, is never altered by later saves, loads, queries or destructions
ImagesAppendOnly == [][Len(imgs') >= Len(imgs) /\ SubSeq(imgs', 1, Len(imgs)) = imgs]_vars
\* C13: while an iterator is open it stays bound to its dictionary and every step delivers at most one element, never twice
IterShrinks   == [][\A it \in DOMAIN iters : it \in DOMAIN iters' =>
                       /\ iters'[it].h = iters[it].h /\ iters'[it].type = iters[it].type
                       /\ iters'[it].pending \subseteq iters[it].pending
                       /\ Cardinality(iters[it].pending \ iters'[it].pending) <= 1]_vars
\* C07 / C16: a destroyed handle is never revived, and no step other than Destroy changes liveness
DeadStaysDead == [][\A h \in DOMAIN objs : h \in DOMAIN objs' /\ (~objs[h].alive => ~objs'[h].alive)]_vars
\* C12: two objects of one kind over the same S answer alike up to their tables; ordered kinds agree on every ID
ParamIndependence == \A g, h \in DOMAIN objs : (objs[g].S = objs[h].S /\ objs[g].kind \in Ordered /\ objs[h].kind \in Ordered)
                        => objs[g].table = objs[h].table
\* C13: iterators only hold IDs of their dictionary
ItersSound == \A it \in DOMAIN iters : iters[it].pending \subseteq 1..N(objs[iters[it].h])
Inv == TypeOK /\ Bijection /\ RoundTrip /\ NoFalsePositive /\ RankNumbering /\ PrefixInterval /\ ImagesDenote /\ ParamIndependence /\ ItersSound
=============================================================================
