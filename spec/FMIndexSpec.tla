---------------------------- MODULE FMIndexSpec ----------------------------
(***************************************************************************)
(* Mechanism model of the FM-index dictionary (StringDictionaryFMINDEX +   *)
(* FMIndex/SSA): the text  \1 s_1 \1 s_2 ... \1 s_n \1 \0 , its suffix      *)
(* array (with the empty suffix in row 0), the BWT, the C array `occ`,     *)
(* backward search, the LF walk, suffix sampling every `Step` text         *)
(* positions mapped to string numbers, and the ID arithmetic of the        *)
(* dictionary (row - 2; extract: row id+3, the last ID wraps to row 2).    *)
(* TLC checks for every valid input over Sigma within the bounds and every *)
(* pattern: locate = rank or 0, extract(i) = S[i], the prefix range is     *)
(* exactly PrefixIds, and the substring result (LF walk to a sampled       *)
(* position or to a separator, then de-duplicated) is exactly SubstrIds.   *)
(***************************************************************************)
EXTENDS Naturals, Sequences, FiniteSets, TLC, SequencesExt, FiniteSetsExt

CONSTANTS Sigma, MaxLen, MaxN, Steps

Strs == UNION {[1..k -> Sigma] : k \in 1..MaxLen}
LexLess(a, b) == LET m == IF Len(a) < Len(b) THEN Len(a) ELSE Len(b)
                     D == {i \in 1..m : a[i] # b[i]}
                 IN  IF D = {} THEN Len(a) < Len(b) ELSE a[Min(D)] < b[Min(D)]
IsPrefixOf(p, s) == Len(p) <= Len(s) /\ \A i \in 1..Len(p) : p[i] = s[i]
IsSubstrOf(p, s) == \E k \in 0..(Len(s) - Len(p)) : \A i \in 1..Len(p) : s[k + i] = p[i]

RECURSIVE Cat(_, _)
Cat(S, i) == IF i > Len(S) THEN <<1, 0>> ELSE <<1>> \o S[i] \o Cat(S, i + 1)
Text(S) == Cat(S, 1)                       \* positions 0..N-1 are Text[1..N]

\* suffix array rows 0..N: row r holds the start position (0-based) of the r-th smallest suffix; the empty suffix (N) is row 0
Suffix(T, p) == SubSeq(T, p + 1, Len(T))
SA(T) == SortSeq([i \in 1..(Len(T) + 1) |-> i - 1], LAMBDA a, b : LexLess(Suffix(T, a), Suffix(T, b)))
BWT(T, sa) == [r \in 1..Len(sa) |-> IF sa[r] = 0 THEN 0 ELSE T[sa[r]]]          \* T[sa[r]] is the symbol before position sa[r]
Occ(bwt, c) == Cardinality({r \in 1..Len(bwt) : bwt[r] < c})                   \* C array
Rank(bwt, c, i) == Cardinality({r \in 1..(i + 1) : r <= Len(bwt) /\ bwt[r] = c})     \* occurrences of c in rows 0..i

\* backward search: returns <<sp, ep>> (rows), sp > ep when the pattern does not occur
RECURSIVE BS(_, _, _, _, _)
BS(bwt, pat, i, sp, ep) ==
  IF sp > ep \/ i < 1 THEN <<sp, ep>>
  ELSE LET c == pat[i] IN
       BS(bwt, pat, i - 1, Occ(bwt, c) + Rank(bwt, c, sp - 1), Occ(bwt, c) + Rank(bwt, c, ep) - 1)
Search(bwt, pat) == LET c == pat[Len(pat)] IN
                    IF \A r \in 1..Len(bwt) : bwt[r] # c THEN <<1, 0>>          \* the alphabet check
                    ELSE BS(bwt, pat, Len(pat) - 1, Occ(bwt, c), Occ(bwt, c + 1) - 1)
LF(bwt, row) == Occ(bwt, bwt[row + 1]) + Rank(bwt, bwt[row + 1], row) - 1

\* dictionary operations
LocateId(bwt, s) == LET r == Search(bwt, <<1>> \o s \o <<1>>) IN IF r[1] <= r[2] THEN r[1] - 2 ELSE 0
RECURSIVE Walk(_, _, _)
Walk(bwt, row, acc) == IF bwt[row + 1] = 1 THEN acc ELSE Walk(bwt, LF(bwt, row), <<bwt[row + 1]>> \o acc)
ExtractId(bwt, n, id) == Walk(bwt, IF id = n THEN 2 ELSE id + 3, <<>>)
PrefixRange(bwt, p) == LET r == Search(bwt, <<1>> \o p) IN IF r[1] <= r[2] THEN <<r[1] - 2, r[2] - 2>> ELSE <<0, 0>>

\* string number of text position pos: separators before or at it (separators->rank1; the final position ranks as the last one)
StrOfPos(T, pos) == LET q == IF pos < Len(T) THEN pos ELSE Len(T) - 1 IN Cardinality({k \in 0..q : T[k + 1] = 1})
\* resolve one occurrence (row) to a string number: walk LF until the row's text position is sampled or a separator precedes it
RECURSIVE Resolve(_, _, _, _, _)
Resolve(T, sa, bwt, step, row) ==
  IF sa[row + 1] % step = 0 THEN StrOfPos(T, sa[row + 1])
  ELSE IF bwt[row + 1] = 1 THEN Rank(bwt, 1, row) - 1                          \* the separator in front of it: rank_tmp - 1
  ELSE Resolve(T, sa, bwt, step, LF(bwt, row))
SubstrIds(T, sa, bwt, step, p) == LET r == Search(bwt, p) IN
                                  IF r[1] > r[2] THEN {} ELSE {Resolve(T, sa, bwt, step, row) : row \in r[1]..r[2]}

VARIABLES S, p, step
\* three steps so that TLC's workers share the work: choose the member set, then the pattern, then the sampling step
Init == S = <<>> /\ p = <<>> /\ step = 0
Next == \/ /\ S = <<>> /\ \E Tt \in SUBSET Strs : Cardinality(Tt) \in 1..MaxN /\ S' = SortSeq(SetToSeq(Tt), LexLess)
           /\ UNCHANGED <<p, step>>
        \/ /\ S # <<>> /\ p = <<>> /\ p' \in Strs /\ UNCHANGED <<S, step>>
        \/ /\ p # <<>> /\ step = 0 /\ step' \in Steps /\ UNCHANGED <<S, p>>
Spec == Init /\ [][Next]_<<S, p, step>>

T0 == Text(S)
sa0 == SA(T0)
bw0 == BWT(T0, sa0)
n0 == Len(S)
LocateOK  == LocateId(bw0, p) = (IF \E i \in 1..n0 : S[i] = p THEN CHOOSE i \in 1..n0 : S[i] = p ELSE 0)
ExtractOK == \A i \in 1..n0 : ExtractId(bw0, n0, i) = S[i]
PrefixOK  == LET e == {i \in 1..n0 : IsPrefixOf(p, S[i])} r == PrefixRange(bw0, p) IN
             IF e = {} THEN r = <<0, 0>> ELSE r = <<Min(e), Max(e)>>
SubstrOK  == SubstrIds(T0, sa0, bw0, step, p) = {i \in 1..n0 : IsSubstrOf(p, S[i])}
Inv == step # 0 => (LocateOK /\ ExtractOK /\ PrefixOK /\ SubstrOK)
=============================================================================
