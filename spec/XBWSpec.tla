------------------------------ MODULE XBWSpec ------------------------------
(***************************************************************************)
(* Mechanism model of the XBW dictionary (StringDictionaryXBW + XBW/XBW +  *)
(* TrieNode + the two XBW ID iterators), shaped like the code:             *)
(*                                                                         *)
(*  build   the trie of the members under a DOUBLE root (root2 -> root,    *)
(*          both labelled 0; every member is closed by the byte 255), the  *)
(*          node order of TrieNode::cmp (parent's upward path read from    *)
(*          the parent towards the root, shorter path first; then the      *)
(*          node's own label), and the three arrays that are saved:        *)
(*          alpha (mapped labels), last (node is the last child of its     *)
(*          parent; root2 is NOT marked) and A (one bit at the start of    *)
(*          the block of children of each present label, at len and at     *)
(*          len+1);                                                        *)
(*  query   subPathSearch, getChildren, getParent, idToStr and the         *)
(*          breadth-first ID iterators, written with the same rank /       *)
(*          select / access calls on alpha, last and A as the code.        *)
(*                                                                         *)
(* TLC checks, for every member set over Sigma within the bounds and every *)
(* pattern: the IDs are a bijection between 1..n and the members (locate   *)
(* and extract are inverse, absent strings give 0), the prefix result is   *)
(* exactly the IDs of the members that start with the pattern, and the     *)
(* substring result is exactly the IDs of the members that contain it.     *)
(* CONSTANT Fixed = FALSE keeps the original subPathSearch checkable: it   *)
(* answered `every node' (0..len-1) for a pattern of ONE byte              *)
(* (OneByteRange), and because getChildren(0) contains node 0 itself       *)
(* (Root2Loops, still a fact of the layout) the breadth-first walk of a    *)
(* one-byte substring query never ended.  With the short cut restricted to *)
(* the empty pattern (Fixed = TRUE, the one-character repair 84cd356 that  *)
(* this model was used to validate before it was made) SubstrOK holds for  *)
(* one-byte patterns as well.                                              *)
(* The arrays are bound to the implementation by comparing them, for every *)
(* member set TLC enumerates, with the image the real constructor saves    *)
(* (lib/checks/csd.py: xbw_image_binding).                                 *)
(***************************************************************************)
EXTENDS Integers, Sequences, FiniteSets, TLC, SequencesExt, FiniteSetsExt, Json

CONSTANTS Sigma, MaxLen, MaxN, Emit,
          Fixed      \* TRUE: subPathSearch short-cuts only the empty pattern (after commit 84cd356); FALSE: patterns of length <= 1

END == 255
Strs == UNION {[1..k -> Sigma] : k \in 1..MaxLen}
IsPrefixOf(p, s) == Len(p) <= Len(s) /\ \A i \in 1..Len(p) : p[i] = s[i]
IsSubstrOf(p, s) == \E k \in 0..(Len(s) - Len(p)) : \A i \in 1..Len(p) : s[k + i] = p[i]

---------------------------------------------------------------------------
(* build *)
Root2 == <<0>>
Root  == <<0, 0>>
Nodes(S) == {Root2, Root} \cup UNION {{Root \o SubSeq(s, 1, k) : k \in 1..Len(s)} : s \in S} \cup {Root \o s \o <<END>> : s \in S}
\* TrieNode::less on two different nodes: labels from the node upwards, the one whose path ends first is smaller
RevLess(a, b) == LET m == IF Len(a) < Len(b) THEN Len(a) ELSE Len(b)
                     D == {j \in 0..(m - 1) : a[Len(a) - j] # b[Len(b) - j]}
                 IN  IF D = {} THEN Len(a) < Len(b) ELSE a[Len(a) - Min(D)] < b[Len(b) - Min(D)]
\* TrieNode::cmp: same parent -> by label; otherwise by the parents (a missing parent first)
NodeLess(a, b) == IF Front(a) = Front(b) THEN Last(a) < Last(b) ELSE RevLess(Front(a), Front(b))
Order(S) == SortSeq(SetToSeq(Nodes(S)), NodeLess)

Labels(S) == {0} \cup UNION {{s[i] : i \in 1..Len(s)} : s \in S}
Map(S, c) == IF c = END THEN Cardinality(Labels(S)) + 1
             ELSE IF c \in Labels(S) THEN Cardinality({d \in Labels(S) : d < c}) + 1 ELSE 0
Unmap(S, m) == IF m = Cardinality(Labels(S)) + 1 THEN END ELSE CHOOSE c \in Labels(S) : Map(S, c) = m

\* label of the parent (root2 is counted under label 0: occ[0]++ twice for the two roots)
PSym(nd) == IF nd = Root2 THEN 0 ELSE Last(Front(nd))
IsLast(S, nd) == nd # Root2 /\ \A o \in Nodes(S) : Front(o) = Front(nd) => Last(o) <= Last(nd)

\* the saved arrays; positions are 0-based as in the code, so position i is index i+1
Alpha(S, N) == [i \in 1..Len(N) |-> Map(S, Last(N[i]))]
LastB(S, N) == {i - 1 : i \in {j \in 1..Len(N) : IsLast(S, N[j])}}
\* A: bit 0, then the running sum of occ over the byte values, then sum+1 (= len+1, written twice)
ABitsRaw(S, N) == {Cardinality({nd \in Nodes(S) : PSym(nd) < c}) : c \in Labels(S)} \cup {Len(N), Len(N) + 1}
ABits(S, N) == {b \in ABitsRaw(S, N) : b <= Len(N)}          \* the bitmap is built with len+1 bits

---------------------------------------------------------------------------
(* rank / select / access as the succinct structures answer them *)
RankSeq(al, c, i) == Cardinality({j \in 0..i : j < Len(al) /\ al[j + 1] = c})          \* occurrences in [0..i]
SelSeq(al, c, k) == LET P == {j \in 0..(Len(al) - 1) : al[j + 1] = c /\ RankSeq(al, c, j) = k}
                    IN  IF k = 0 THEN -1 ELSE IF P = {} THEN Len(al) ELSE CHOOSE j \in P : TRUE
Rank1(B, i) == Cardinality({b \in B : b <= i})
Sel1(B, n, k) == LET P == {b \in B : Rank1(B, b) = k} IN IF k = 0 THEN -1 ELSE IF P = {} THEN n ELSE CHOOSE b \in P : TRUE

---------------------------------------------------------------------------
(* the loaded index: record of everything XBW::XBW(istream) keeps *)
Index(S) == LET N == Order(S) al == Alpha(S, N) IN
  [n |-> Len(N), al |-> al, last |-> LastB(S, N), A |-> ABits(S, N), maxLabel |-> Max({al[i] : i \in 1..Len(N)}),
   selA |-> [m \in 1..(Cardinality(Labels(S)) + 2) |-> Sel1(ABits(S, N), Len(N) + 1, m)]]

GetChildren(X, i) ==
  LET c == X.al[i + 1]  k == RankSeq(X.al, c, i) IN
  IF c = X.maxLabel THEN <<1, 0>>
  ELSE LET y == X.selA[c]
           z == IF y # 0 THEN Rank1(X.last, y - 1) ELSE 0
       IN  <<Sel1(X.last, X.n, z + k - 1) + 1, Sel1(X.last, X.n, z + k)>>

GetParent(X, nd) ==
  LET c == Rank1(X.A, nd)  y == X.selA[c] IN
  IF y = 0 THEN 1
  ELSE SelSeq(X.al, c, Rank1(X.last, nd - 1) - Rank1(X.last, y - 1) + 1)

\* subPathSearch(qry, ql): mapped labels; 0 = byte not in the alphabet
RECURSIVE SPSLoop(_, _, _, _, _)
SPSLoop(X, q, i, l, r) ==
  IF ~(l <= r /\ i < Len(q)) THEN <<l, r>>
  ELSE LET s == q[i + 1] IN
       IF s = 0 THEN <<1, 0>>
       ELSE LET y == X.selA[s]
                z == Rank1(X.last, y - 1)
                k1 == IF l = 0 THEN 0 ELSE RankSeq(X.al, s, l - 1)
                k2 == RankSeq(X.al, s, r)
            IN  SPSLoop(X, q, i + 1, Sel1(X.last, X.n, z + k1) + 1, Sel1(X.last, X.n, z + k2))
SubPathSearch(X, q) ==
  IF (Fixed /\ Len(q) = 0) \/ (~Fixed /\ Len(q) <= 1) THEN <<0, X.n - 1>>
  ELSE IF q[1] = 0 THEN <<1, 0>>
  ELSE SPSLoop(X, q, 1, X.selA[q[1]], X.selA[q[1] + 1] - 1)

\* the breadth-first walk of the ID iterators from one node: IDs of the closing nodes below it
RECURSIVE Collect(_, _)
Collect(X, i) == IF X.al[i + 1] = X.maxLabel THEN {RankSeq(X.al, X.maxLabel, i)}
                 ELSE LET ch == GetChildren(X, i) IN UNION {Collect(X, j) : j \in ch[1]..ch[2]}
RECURSIVE IdToStr(_, _, _, _)
IdToStr(S, X, id, acc) == IF id = 1 THEN acc ELSE IdToStr(S, X, GetParent(X, id), <<Unmap(S, X.al[id + 1])>> \o acc)

---------------------------------------------------------------------------
(* dictionary operations (StringDictionaryXBW) *)
MapPat(S, p) == [i \in 1..Len(p) |-> Map(S, p[i])]
Locate(S, X, s) == LET lr == SubPathSearch(X, <<Map(S, 0)>> \o MapPat(S, s)) IN
                   IF lr[1] > lr[2] \/ X.al[lr[2] + 1] # X.maxLabel THEN 0 ELSE RankSeq(X.al, X.maxLabel, lr[2])
Extract(S, X, id) == LET w == IdToStr(S, X, SelSeq(X.al, X.maxLabel, id), <<>>) IN SubSeq(w, 1, Len(w) - 1)
LocatePrefix(S, X, p) == LET lr == SubPathSearch(X, <<Map(S, 0)>> \o MapPat(S, p)) IN
                         IF lr[1] > lr[2] THEN {} ELSE UNION {Collect(X, i) : i \in lr[1]..lr[2]}
LocateSubstr(S, X, p) == LET lr == SubPathSearch(X, MapPat(S, p)) IN
                         IF lr[1] > lr[2] THEN {} ELSE UNION {Collect(X, i) : i \in lr[1]..lr[2]}

---------------------------------------------------------------------------
VARIABLES S, p
\* two steps so that TLC's workers share the member sets: choose S, then choose p
Init == S = {} /\ p = <<>>
Next == \/ S = {} /\ S' \in {T \in SUBSET Strs : Cardinality(T) \in 1..MaxN} /\ p' = p
        \/ S # {} /\ p = <<>> /\ p' \in Strs /\ S' = S
Spec == Init /\ [][Next]_<<S, p>>

n0 == Cardinality(S)
IdOf(X, s) == Locate(S, X, s)
IdBijection(X) == /\ \A s \in S : IdOf(X, s) \in 1..n0 /\ Extract(S, X, IdOf(X, s)) = s
                /\ \A i \in 1..n0 : Extract(S, X, i) \in S
LocateOK(X)  == (p \notin S) => IdOf(X, p) = 0
PrefixOK(X)  == LocatePrefix(S, X, p) = {IdOf(X, s) : s \in {t \in S : IsPrefixOf(p, t)}}
SubstrOK(X)  == (Fixed \/ Len(p) >= 2) => LocateSubstr(S, X, p) = {IdOf(X, s) : s \in {t \in S : IsSubstrOf(p, t)}}
\* the two facts behind the one-byte hang of the original code (Fixed = FALSE)
OneByteRange(X) == (~Fixed /\ Len(p) = 1) => SubPathSearch(X, MapPat(S, p)) = <<0, X.n - 1>>
Root2Loops(X)   == LET ch == GetChildren(X, 0) IN ch[1] = 0 /\ ch[2] >= 0
\* structural facts the queries rely on
Shape(X) == /\ X.al[1] = 1 /\ X.al[2] = 1                       \* the two roots come first
            /\ X.maxLabel = Cardinality(Labels(S)) + 1
            /\ Cardinality({i \in 1..X.n : X.al[i] = X.maxLabel}) = n0
            /\ X.selA[X.maxLabel] = X.n
Inv == p # <<>> => LET X == Index(S) IN
       IdBijection(X) /\ LocateOK(X) /\ PrefixOK(X) /\ SubstrOK(X) /\ OneByteRange(X) /\ Root2Loops(X) /\ Shape(X)

\* one line per member set: the arrays the constructor must save (picked up by the image binding)
EmitOK == (Emit /\ S # {} /\ p = <<>>) =>
          LET N == Order(S) IN
          PrintT(<<"XBWIMG", ToJson([S |-> SetToSeq(S), len |-> Len(N), alpha |-> Alpha(S, N),
                                     last |-> SetToSeq(LastB(S, N)), A |-> SetToSeq(ABitsRaw(S, N)),
                                     map |-> SetToSeq({<<c, Map(S, c)>> : c \in Labels(S) \cup {END}})])>>)
=============================================================================
