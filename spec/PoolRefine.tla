--------------------------- MODULE PoolRefine ---------------------------
(* WorkerPool (L2) implements PoolAbs (L1) under the refinement mapping below. *)
EXTENDS WorkerPool

Popped == {tmp[w] : w \in {x \in W : pc[x] \in {"unlock", "notify", "run"}}}
InQ    == {q[i] : i \in 1..Len(q)}
Handed == InQ \cup Popped \cup {t \in Task : started[t] > 0}

absSt == [t \in Task |-> IF ended[t] > 0 THEN "done"
                         ELSE IF started[t] > 0 THEN "running"
                         ELSE IF t \in Handed THEN "queued" ELSE "new"]
A == INSTANCE PoolAbs WITH W <- W, Task <- Task,
       st <- absSt,
       stopReq <- (\E w \in W : stopped[w]),
       wexit <- [w \in W |-> pc[w] = "done"],
       joined <- Finished

AbsSafe             == A!ASafe
EveryQueuedTaskRuns == A!EveryQueuedTaskRuns
\* the client patterns always call wait_workers after stop, so this is what C10 demands
ShutdownCompletes   == A!ShutdownCompletes
=============================================================================
