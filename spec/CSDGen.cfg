SPECIFICATION GSpec
CONSTANTS Strs <- GStrs
          KindPars <- GKindPars
          Handles = {1, 2, 3}
          ItHandles = {1, 2, 3}
          MaxImgs = 3
          Depth = 24
CONSTRAINT Emit
CONSTRAINT Stop
CHECK_DEADLOCK FALSE
