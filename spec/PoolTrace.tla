---------------------------- MODULE PoolTrace ----------------------------
(***************************************************************************)
(* L2 conformance: is every recorded execution of the real WorkerPool      *)
(* (sync-level trace produced under the deterministic scheduler, total     *)
(* order by construction) a behaviour of WorkerPool.tla?                   *)
(*                                                                         *)
(* Monitor mode: every event is consumed.  An event that is not an         *)
(* instance of the L2 action it names marks the *execution* as diverging   *)
(* (first such event recorded) and the rest of that execution is skipped;  *)
(* validation continues with the next execution (Reset).  Divergence from  *)
(* L2 is not a property violation (DESIGN 3.5): the property verdict of an *)
(* execution is PoolAbsTrace's.                                            *)
(*                                                                         *)
(* Private mutexes (qm, stop<i>) are tracked by ghost owners; the L2       *)
(* action of such a critical section is taken at its unlock event.         *)
(***************************************************************************)
EXTENDS WorkerPool, Json, IOUtils

TraceLog == ndJsonDeserialize(IOEnv.TRACE)
OutFile  == IOEnv.OUT

VARIABLES l,      \* next line of the trace
          ok,     \* current execution still conforms
          run,    \* number of the current execution (from its Reset event)
          bad,    \* sequence of [run, line, e] of first diverging events
          nruns,  \* executions seen
          privq,  \* ghost owner of the queue mutex (0 = free)
          privs,  \* ghost owners of the stop mutexes
          flushed,
          ndiv    \* number of diverging executions

tvars == <<l, ok, run, bad, nruns, privq, privs, flushed, ndiv>>

T(t) == IF t = 0 THEN PID ELSE t
TH(ev) == IF ev.e = "Deadlock" THEN PID ELSE T(ev.t)
StopName(i) == "stop" \o ToString(i)

PrivFree == privq = 0 /\ \A i \in W : privs[i] = 0

\* L2 action named by a sync / outcome event ev of thread th
Act(ev, th) ==
  CASE ev.e = "start" -> th \in W /\ pc[th] = "head1" /\ UNCHANGED <<vars, privq, privs>>
    [] ev.e = "exit"  -> th \in W /\ pc[th] = "done" /\ UNCHANGED <<vars, privq, privs>>
    [] ev.e = "lock" ->
         IF ev.o = "shared" THEN
           /\ (IF th = PID THEN (StopL(PID) \/ AddL) ELSE (Lock(th) \/ StopL(th)))
           /\ UNCHANGED <<privq, privs>>
         ELSE IF ev.o = "qm" THEN
           /\ privq = 0 /\ privq' = th /\ UNCHANGED <<vars, privs>>
           /\ IF th = PID THEN pc[th] = "add" ELSE pc[th] \in {"head2", "pred2", "chk2", "chk3", "pop"}
         ELSE IF ev.o = "m" THEN
           /\ (IF th = PID THEN (CLockM \/ CLockM2) ELSE TLockM(th))
           /\ UNCHANGED <<privq, privs>>
         ELSE \E i \in W :
           /\ ev.o = StopName(i) /\ privs[i] = 0 /\ privs' = [privs EXCEPT ![i] = th]
           /\ (pc[th] = "stop" /\ si[th] = i) \/ (th = i /\ pc[th] \in {"head1", "pred1", "chk1"})
           /\ UNCHANGED <<vars, privq>>
    [] ev.e = "unlock" ->
         IF ev.o = "shared" THEN
           /\ (IF th = PID THEN (StopU(PID) \/ AddU)
                           ELSE (Unlock(th) \/ BrkUnlock(th) \/ ContUnlock(th) \/ StopU(th)))
           /\ UNCHANGED <<privq, privs>>
         ELSE IF ev.o = "qm" THEN
           /\ privq = th /\ privq' = 0 /\ UNCHANGED privs
           /\ (IF th = PID THEN Add ELSE (Head2(th) \/ Pred2(th) \/ Chk2(th) \/ Chk3(th) \/ Pop(th)))
         ELSE IF ev.o = "m" THEN
           /\ UNCHANGED <<privq, privs>>
           /\ IF th = PID THEN (CUnlockM \/ (pc[PID] \in {"join", "fin"} /\ si[PID] > NW /\ m = PID /\ UNCHANGED vars))
                          ELSE TUnlockM(th)
         ELSE \E i \in W :
           /\ ev.o = StopName(i) /\ privs[i] = th /\ privs' = [privs EXCEPT ![i] = 0]
           /\ UNCHANGED privq
           /\ IF th = i /\ pc[th] \in {"head1", "pred1", "chk1"}
                THEN (Head1(th) \/ Pred1(th) \/ Chk1(th))
                ELSE si[th] = i /\ Stop(th)
    [] ev.e = "cwait" ->
         /\ UNCHANGED <<privq, privs>>
         /\ IF th = PID THEN ev.o = "cv2" /\ ev.m = "m" /\ CWait
                        ELSE ev.o = "cv" /\ ev.m = "shared" /\ Wait(th)
    [] ev.e = "creacq" ->
         /\ UNCHANGED <<privq, privs>>
         /\ IF th = PID THEN ev.o = "m" /\ CWake ELSE ev.o = "shared" /\ Wake(th)
    [] ev.e = "bcast" ->
         /\ UNCHANGED <<privq, privs>>
         /\ IF ev.o = "cv2" THEN th \in W /\ TNotify2(th)
            ELSE /\ ev.o = "cv"
                 /\ IF th = PID THEN (AddN \/ StopN(PID))
                                ELSE (Notify(th) \/ ExitN(th) \/ StopN(th))
    [] ev.e = "join" -> th = PID /\ si[PID] = ev.u /\ Join /\ UNCHANGED <<privq, privs>>
    [] ev.e = "Submit"  -> th = PID /\ si[PID] = ev.task /\ si[PID] <= NT /\ CNext /\ UNCHANGED <<privq, privs>>
    [] ev.e = "AddDone" -> th = PID /\ si[PID] > NT /\ CNext /\ UNCHANGED <<privq, privs>>
    [] ev.e = "StopCall" -> pc[th] \in {"stop", "stopL"} /\ UNCHANGED <<vars, privq, privs>>
    [] ev.e = "TaskRun" -> th \in W /\ tmp[th] = ev.task /\ RunBegin(th) /\ UNCHANGED <<privq, privs>>
    [] ev.e = "TaskEnd" -> th \in W /\ tmp[th] = ev.task /\ RunEnd(th) /\ UNCHANGED <<privq, privs>>
    [] ev.e = "Crit"    -> th \in W /\ TCrit(th) /\ UNCHANGED <<privq, privs>>
    [] ev.e = "AllDone" -> /\ th = PID /\ done = NT /\ pc[PID] \in {"stop", "stopL"} /\ UNCHANGED <<vars, privq, privs>>
                           /\ Len(ev.slots) = NT /\ \A k \in Task : ev.slots[k] = slots[k]
    [] ev.e = "JoinReturned" -> th = PID /\ JoinEnd /\ UNCHANGED <<privq, privs>>
    [] ev.e = "Deadlock" -> /\ ~ENABLED ((\E w \in W : WorkerStep(w)) \/ ClientStep)
                            /\ UNCHANGED <<vars, privq, privs>>
    [] OTHER -> FALSE

ActX(ev, th) == Act(ev, th)

TInit == Init /\ l = 1 /\ ok = TRUE /\ run = 0 /\ bad = <<>> /\ nruns = 0
         /\ privq = 0 /\ privs = [w \in W |-> 0] /\ flushed = FALSE /\ ndiv = 0

TReset(ev) ==
  LET match == ev.nw = NW /\ ev.nt = NT /\ ev.client = Client IN
  /\ q' = <<>> /\ stopped' = [w \in W |-> FALSE] /\ sh' = 0 /\ waiting' = {}
  /\ pc' = [t \in Thr |-> IF t = PID THEN "c_next" ELSE "head1"]
  /\ tmp' = [w \in W |-> 0] /\ si' = [t \in Thr |-> 1]
  /\ started' = [t \in Task |-> 0] /\ ended' = [t \in Task |-> 0]
  /\ m' = 0 /\ waiting2' = FALSE /\ done' = 0 /\ slots' = [t \in Task |-> 0]
  /\ privq' = 0 /\ privs' = [w \in W |-> 0]
  /\ ok' = match /\ run' = ev.run /\ nruns' = nruns + 1
  /\ ndiv' = IF match THEN ndiv ELSE ndiv + 1
  /\ bad' = IF match \/ Len(bad) >= 40 THEN bad
            ELSE Append(bad, [run |-> ev.run, line |-> l, e |-> "config-mismatch"])

\* Inference mode (traces of the real block constructor, which logs synchronisation operations
\* only): the steps of L2 that have no synchronisation operation of their own - loop head of the
\* producer, entry / critical section / return of a task - are taken silently, by the thread of
\* the next event, when that event is not yet enabled.  At most one of {event, silent step} is
\* enabled in any state (they sit at different program points), so validation stays linear.
Infer == "INFER" \in DOMAIN IOEnv /\ IOEnv.INFER = "1"
Silent(th) == IF th = PID THEN (CNext \/ JoinEnd) ELSE (RunBegin(th) \/ RunEnd(th) \/ TCrit(th))
Ignored == {"Timeout", "Crash", "End", "Built"}

TNext ==
  \/ /\ l <= Len(TraceLog) /\ flushed' = flushed
     /\ LET ev == TraceLog[l] IN
        IF ev.e = "Reset" THEN TReset(ev) /\ l' = l + 1
        ELSE IF ~ok \/ ev.e \in Ignored
          THEN l' = l + 1 /\ UNCHANGED <<vars, ok, run, bad, nruns, privq, privs, ndiv>>
        ELSE IF Infer /\ ev.e = "Deadlock" /\ \E th \in Thr : ENABLED Silent(th) THEN
          /\ Silent(CHOOSE th \in Thr : ENABLED Silent(th))
          /\ UNCHANGED <<l, ok, run, bad, nruns, privq, privs, ndiv>>
        ELSE IF ENABLED ActX(ev, TH(ev)) THEN
          /\ ActX(ev, TH(ev)) /\ l' = l + 1 /\ UNCHANGED <<ok, run, bad, nruns, ndiv>>
        ELSE IF Infer /\ ev.e # "Deadlock" /\ ENABLED Silent(T(ev.t)) THEN
          /\ Silent(T(ev.t)) /\ UNCHANGED <<l, ok, run, bad, nruns, privq, privs, ndiv>>
        ELSE
          /\ l' = l + 1 /\ UNCHANGED <<vars, run, nruns, privq, privs>>
          /\ ok' = FALSE /\ ndiv' = ndiv + 1
          /\ bad' = IF Len(bad) < 40 THEN Append(bad, [run |-> run, line |-> l, e |-> ev.e]) ELSE bad
  \/ /\ l = Len(TraceLog) + 1 /\ ~flushed /\ flushed' = TRUE
     /\ ndJsonSerialize(OutFile, <<[runs |-> nruns, diverged |-> ndiv, lines |-> Len(TraceLog)]>> \o bad)
     /\ UNCHANGED <<vars, l, ok, run, bad, nruns, privq, privs, ndiv>>

TSpec == TInit /\ [][TNext]_<<vars, tvars>>

\* reached the end and wrote the report (checked with POSTCONDITION)
Consumed == TLCGet("stats").diameter >= Len(TraceLog) + 1
=============================================================================
