SPECIFICATION Spec
CONSTANTS MaxLen = 3
          MaxN = 4
          MaxCut = 14
INVARIANT Inv
CHECK_DEADLOCK FALSE
