------------------------------ MODULE CSDTrace ------------------------------
(***************************************************************************)
(* Trace validation of recorded executions of the real library against the *)
(* API reference model (CSDBase / CSD).  One event per public call, logged *)
(* at its return by harness/driver; TLC evaluates the answer operators of  *)
(* the specification over the trace.                                       *)
(*                                                                         *)
(* Monitor mode: every event is consumed.  An event that is not an         *)
(* instance of the corresponding specification action is reported (one     *)
(* BAD line per complaint, with the property it is blamed on) and the      *)
(* state is advanced as the specification would have it, so the rest of    *)
(* the execution is still checked.                                         *)
(*                                                                         *)
(* ID numbering: order-preserving kinds must number by rank (their table   *)
(* is S from the start); for the other kinds the table is *learned*: the   *)
(* first observation of extract(i) = s or locate(s) = i fixes the pair,    *)
(* later observations must agree, injectivity and range are enforced.  A   *)
(* loaded object shares the table of the object it was saved from (C06).   *)
(***************************************************************************)
EXTENDS CSDBase, Json, IOUtils

TraceLog == ndJsonDeserialize(IOEnv.TRACE)

VARIABLES l,      \* next line
          prog,   \* current program id and focus property (from Reset)
          objs,   \* handle -> [kind, par, S, tid, origin, opt, differs]
          tabs,   \* table id -> sequence of learned strings (<<>> = not yet known)
          iters,  \* iterator handle -> [h, op, type, exp, got, cnt, bogus]
          imgs,   \* image slot -> [kind, par, S, tid, bytes, dg, differs]
          digs,   \* <<kind, parkey, S>> -> digest of the image of a *built* object (kept across programs)
          memo,   \* <<handle, query>> -> first response: the same query must get the same response again (C14)
          nev, nbad
tvars == <<l, prog, objs, tabs, iters, imgs, digs, memo, nev, nbad>>

Upd(f, k, v) == (k :> v) @@ f
Drop(f, k) == [x \in DOMAIN f \ {k} |-> f[x]]
Min(I) == CHOOSE x \in I : \A y \in I : x <= y

\* fields of par that reach the image of each kind (thread count must not: C09)
ParKey(k, p) == CASE k \in FCKinds -> <<IF p.bucket < 2 THEN 2 ELSE p.bucket>>
                  [] k \in {"HASHHF", "HASHRPF", "HASHUFFDAC", "HASHRPDAC"} -> <<p.overhead>>
                  [] k = "BLOCKS" -> <<p.overhead, p.cut>>
                  [] k = "FMINDEX" -> <<p.sparse, p.bparam, p.bwt>>
                  [] OTHER -> <<>>

C(p, w) == [p |-> p, w |-> w]

\* report complaints Cs (a sequence of [p, w]) about event ev on an object of kind/origin
Report(ev, Cs, kind, origin) ==
  /\ nbad' = nbad + Len(Cs)
  /\ \A i \in 1..Len(Cs) :
       PrintT(<<"BAD", ToJson([l |-> l, prog |-> prog.id, focus |-> prog.focus, p |-> Cs[i].p, why |-> Cs[i].w, ev |-> ev.e,
                               kind |-> kind, origin |-> origin,
                               h |-> IF "h" \in DOMAIN ev THEN ev.h ELSE IF "it" \in DOMAIN ev /\ ev.it \in DOMAIN iters THEN iters[ev.it].h ELSE 0,
                               site |-> IF ev.e = "memerr" THEN ev.site ELSE "", cls |-> IF ev.e = "memerr" THEN ev.class ELSE "",
                               during |-> IF ev.e \in {"memerr", "crash", "timeout"} THEN ev.during ELSE ""])>>)
Quiet == nbad' = nbad

\* C14: a query repeated on the same object must be answered as it was the first time (whatever was
\* called in between).  key = <<handle, query...>>, val = the logged response.
PureC(key, val, what) == IF key \in DOMAIN memo /\ memo[key] # val
                           THEN <<C("C14", what \o ": the same query on the same object was answered differently before")>> ELSE <<>>
Remember(key, val) == memo' = IF key \in DOMAIN memo THEN memo ELSE Upd(memo, key, val)

-----------------------------------------------------------------------------
TBuild(ev) ==
  LET k == ev.kind
      tid == Cardinality(DOMAIN tabs) + 1
      Cs == (IF ValidInput(ev.S) THEN <<>> ELSE <<C("HARNESS", "build: input outside the validity domain")>>)
  IN  /\ tabs' = Upd(tabs, tid, IF k \in Ordered THEN ev.S ELSE [i \in 1..Len(ev.S) |-> <<>>])
      /\ objs' = Upd(objs, ev.h, [kind |-> k, par |-> Clamp(k, ev.par), S |-> ev.S, tid |-> tid, origin |-> "built", opt |-> 0, differs |-> FALSE])
      /\ Report(ev, Cs, k, "built") /\ UNCHANGED <<iters, imgs, digs, memo>>

TNum(ev) ==
  LET o == objs[ev.h] IN
  /\ Report(ev, IF LimbsEq(ev.r, N(o)) THEN <<>> ELSE <<C("C15", "numElements differs from the number of strings supplied")>>, o.kind, o.origin)
  /\ UNCHANGED <<objs, tabs, iters, imgs, digs, memo>>
TMaxLen(ev) ==
  LET o == objs[ev.h] IN
  /\ Report(ev, IF IsSmall(ev.r) /\ MaxLenOK(o, SmallVal(ev.r)) THEN <<>>
                ELSE <<C("C15", "maxLength outside [longest, longest+1]")>>, o.kind, o.origin)
  /\ UNCHANGED <<objs, tabs, iters, imgs, digs, memo>>

PatC(ev, what) == IF ev.pok = 1 THEN <<>> ELSE <<C("C14", what \o ": caller's pattern buffer modified")>>

TLocate(ev) ==
  LET o == objs[ev.h]  q == ev.q  known == tabs[o.tid]  n == N(o)
      mem == IndexOf(o.S, q)
      inr == IsSmall(ev.r) /\ SmallVal(ev.r) \in 1..n
      rv  == SmallVal(ev.r)
      C1 == IF mem > 0 THEN
              IF ~inr THEN <<C("C01", "locate: member not found")>>
              ELSE IF known[rv] = q THEN <<>>
              ELSE IF known[rv] = <<>> /\ \A j \in 1..n : known[j] # q THEN <<>>
              ELSE IF o.kind \in Ordered THEN <<C("C03", "locate: ID of a member is not its rank")>>
              ELSE <<C("C01", "locate: ID inconsistent with earlier locate/extract answers")>>
            ELSE IF IsZeroL(ev.r) THEN <<>> ELSE <<C("C02", "locate: absent string reported as found")>>
      key == <<ev.h, "L", q>>
  IN  /\ tabs' = IF mem > 0 /\ C1 = <<>> THEN [tabs EXCEPT ![o.tid][rv] = q] ELSE tabs
      /\ Remember(key, ev.r)
      /\ Report(ev, C1 \o PatC(ev, "locate") \o PureC(key, ev.r, "locate"), o.kind, o.origin) /\ UNCHANGED <<objs, iters, imgs, digs>>

\* conformance of a returned (id, string) pair with the table; yields complaints
PairC(o, known, i, ev, what) ==
  IF ev.null = 1 THEN <<C("C01", what \o ": NULL for a valid ID")>>
  ELSE IF ev.s \notin Range(o.S) THEN <<C("C01", what \o ": returned string is not a member")>>
  ELSE IF ev.len # Len(ev.s) THEN <<C("C01", what \o ": reported length differs from strlen")>>
  ELSE IF known[i] = ev.s THEN <<>>
  ELSE IF known[i] = <<>> /\ \A j \in 1..N(o) : known[j] # ev.s THEN <<>>
  ELSE IF o.kind \in Ordered THEN <<C("C03", what \o ": not the i-th smallest member")>>
  ELSE <<C("C01", what \o ": string inconsistent with earlier locate/extract answers")>>

TExtract(ev) ==
  LET o == objs[ev.h]  known == tabs[o.tid]  n == N(o)
      valid == IsSmall(ev.id) /\ SmallVal(ev.id) \in 1..n
      i == SmallVal(ev.id)
      Cs == IF valid THEN PairC(o, known, i, ev, "extract")
            ELSE IF ev.null = 1 /\ ev.len = 0 THEN <<>>
            ELSE <<C("C02", "extract: ID outside [1,n] must give NULL with length 0")>>
      key == <<ev.h, "E", ev.id>>
      val == <<ev.null, ev.len, ev.s>>
  IN  /\ tabs' = IF valid /\ Cs = <<>> THEN [tabs EXCEPT ![o.tid][i] = ev.s] ELSE tabs
      /\ Remember(key, val)
      /\ Report(ev, Cs \o PureC(key, val, "extract"), o.kind, o.origin) /\ UNCHANGED <<objs, iters, imgs, digs>>

TExtRank(ev) ==
  LET o == objs[ev.h]  n == N(o)
      valid == IsSmall(ev.id) /\ SmallVal(ev.id) \in 1..n
      k == SmallVal(ev.id)
      Cs == IF ~HasRank(o) THEN (IF ev.null = 1 THEN <<>> ELSE <<C("C16", "extractRank: unsupported operation returned a string")>>)
            ELSE IF ~valid THEN <<>>
            ELSE IF ev.null = 0 /\ ev.s = o.S[k] /\ ev.len = Len(ev.s) THEN <<>>
            ELSE <<C("C03", "extractRank(k) is not the k-th smallest member")>>
  IN  Report(ev, Cs, o.kind, o.origin) /\ UNCHANGED <<objs, tabs, iters, imgs, digs, memo>>

TLocRank(ev) ==
  LET o == objs[ev.h]  known == tabs[o.tid]  n == N(o)
      valid == IsSmall(ev.id) /\ SmallVal(ev.id) \in 1..n
      k == SmallVal(ev.id)
      inr == IsSmall(ev.r) /\ SmallVal(ev.r) \in 1..n
      rv == SmallVal(ev.r)
      okpair == inr /\ (known[rv] = o.S[k] \/ (known[rv] = <<>> /\ \A j \in 1..n : known[j] # o.S[k]))
      Cs == IF ~HasRank(o) THEN (IF IsZeroL(ev.r) THEN <<>> ELSE <<C("C16", "locateRank: unsupported operation returned an ID")>>)
            ELSE IF ~valid THEN <<>>
            ELSE IF okpair THEN <<>> ELSE <<C("C03", "extract(locateRank(k)) is not the k-th smallest member")>>
  IN  /\ tabs' = IF HasRank(o) /\ valid /\ okpair THEN [tabs EXCEPT ![o.tid][rv] = o.S[k]] ELSE tabs
      /\ Report(ev, Cs, o.kind, o.origin) /\ UNCHANGED <<objs, iters, imgs, digs, memo>>

-----------------------------------------------------------------------------
(* Iterators.  exp = the strings the stream has to deliver; for order-      *)
(* preserving kinds and for table scans the order is fixed: the k-th        *)
(* element delivered is the k-th of `seq` (IDs ascending).                  *)
OpProp(op) == CASE op = "prefix" -> "C04" [] op = "substr" -> "C05" [] OTHER -> "C13"

TOpen(ev, type) ==
  LET o == objs[ev.h]  known == tabs[o.tid]  op == ev.op
      cap == CASE op = "prefix" -> HasPrefix(o) [] op = "substr" -> HasSubstr(o) [] OTHER -> HasTable(o)
      exp == CASE op = "prefix" -> {s \in Range(o.S) : IsPrefix(ev.p, s)}
               [] op = "substr" -> {s \in Range(o.S) : IsSubstr(ev.p, s)}
               [] OTHER -> Range(o.S)
      fixed == o.kind \in Ordered \/ op = "table"
      Cs == IF ~cap THEN (IF ev.null = 1 THEN <<>> ELSE <<C("C16", op \o ": unsupported operation returned an iterator")>>)
            ELSE IF ev.null = 1 /\ exp # {} THEN <<C(OpProp(op), op \o ": NULL iterator although the result is not empty")>>
            ELSE <<>>
  IN  /\ iters' = IF ev.null = 1 THEN iters
                  ELSE Upd(iters, ev.it, [h |-> ev.h, op |-> op, type |-> type, exp |-> exp, fixed |-> fixed,
                                          gotS |-> {}, gotI |-> {}, cnt |-> 0, bogus |-> ~cap,
                                          seq |-> <<>>, key |-> <<ev.h, type, op, ev.p>>])
      /\ Report(ev, Cs \o (IF op = "table" THEN <<>> ELSE PatC(ev, op)), o.kind, o.origin)
      /\ UNCHANGED <<objs, tabs, imgs, digs, memo>>

THas(ev) ==
  LET itr == iters[ev.it]  o == objs[itr.h]
      rem == Cardinality(itr.exp) - itr.cnt
      Cs == IF itr.bogus THEN <<>>
            ELSE IF ev.r = 1 /\ rem <= 0 THEN <<C(OpProp(itr.op), itr.op \o ": hasNext is true after the last element"), C("C13", "hasNext true after the last element")>>
            ELSE IF ev.r = 0 /\ rem > 0 THEN <<C(OpProp(itr.op), itr.op \o ": stream ends before all results were delivered")>>
            ELSE <<>>
      done == ev.r = 0 /\ ~itr.bogus                     \* the stream ended: its whole delivery is the answer of the query
  IN  /\ IF done THEN Remember(itr.key, itr.seq) ELSE memo' = memo
      /\ Report(ev, Cs \o (IF done THEN PureC(itr.key, itr.seq, itr.op) ELSE <<>>), o.kind, o.origin)
      /\ UNCHANGED <<objs, tabs, iters, imgs, digs>>

\* the k-th string of a stream with fixed order (ascending IDs)
KthFixed(o, known, itr, k) ==
  IF itr.op = "table" THEN known[k]                                   \* may be <<>> (not learned yet)
  ELSE LET ids == {i \in 1..N(o) : o.S[i] \in itr.exp}                 \* ordered kinds: table = S
           RECURSIVE Nth(_, _)
           Nth(I, j) == IF j = 1 THEN Min(I) ELSE Nth(I \ {Min(I)}, j - 1)
       IN  o.S[Nth(ids, k)]

TIdNext(ev) ==
  LET itr == iters[ev.it]  o == objs[itr.h]  known == tabs[o.tid]  n == N(o)
      rem == Cardinality(itr.exp) - itr.cnt
      inr == IsSmall(ev.r) /\ SmallVal(ev.r) \in 1..n
      rv == SmallVal(ev.r)
      P == OpProp(itr.op)
      Cs == IF itr.bogus THEN <<>>
            ELSE IF rem <= 0 THEN <<C(P, itr.op \o ": ID produced beyond the result set"), C("C13", "ID iterator reads past its result")>>
            ELSE IF ~inr THEN <<C(P, itr.op \o ": ID outside [1,n]")>>
            ELSE IF rv \in itr.gotI THEN <<C(P, itr.op \o ": ID delivered twice"), C("C13", "ID iterator repeats an ID")>>
            ELSE IF itr.fixed THEN
              (IF o.S[rv] = KthFixed(o, known, itr, itr.cnt + 1) THEN <<>>
               ELSE IF o.S[rv] \in itr.exp THEN <<C(P, itr.op \o ": IDs not in ascending contiguous order"), C("C13", "ID iterator not ascending")>>
               ELSE <<C(P, itr.op \o ": ID of a non-matching member")>>)
            ELSE IF known[rv] # <<>> /\ known[rv] \notin itr.exp THEN <<C(P, itr.op \o ": ID of a non-matching member")>>
            ELSE <<>>
  IN  /\ iters' = [iters EXCEPT ![ev.it].cnt = @ + 1, ![ev.it].gotI = IF inr THEN @ \cup {rv} ELSE @, ![ev.it].seq = Append(@, ev.r)]
      /\ Report(ev, Cs, o.kind, o.origin) /\ UNCHANGED <<objs, tabs, imgs, digs, memo>>

TStrNext(ev) ==
  LET itr == iters[ev.it]  o == objs[itr.h]  known == tabs[o.tid]  n == N(o)
      rem == Cardinality(itr.exp) - itr.cnt
      P == OpProp(itr.op)
      k == itr.cnt + 1
      want == IF itr.fixed /\ rem > 0 THEN KthFixed(o, known, itr, k) ELSE <<>>
      learn == itr.op = "table" /\ rem > 0 /\ ev.null = 0 /\ want = <<>> /\ ev.s \in Range(o.S) /\ \A j \in 1..n : known[j] # ev.s
      Cs == IF itr.bogus THEN <<>>
            ELSE IF rem <= 0 THEN <<C(P, itr.op \o ": string produced beyond the result set"), C("C13", "string iterator delivers past its end")>>
            ELSE IF ev.null = 1 THEN <<C(P, itr.op \o ": NULL string inside the result")>>
            ELSE IF ev.len # Len(ev.s) THEN <<C("C13", "iterator: reported length differs from strlen")>>
            ELSE IF ev.s \notin itr.exp THEN <<C(P, itr.op \o ": delivered string is not in the result set")>>
            ELSE IF ev.s \in itr.gotS THEN <<C(P, itr.op \o ": string delivered twice"), C("C13", "string iterator repeats an element")>>
            ELSE IF itr.fixed /\ want # <<>> /\ ev.s # want THEN <<C(P, itr.op \o ": strings not in ID order"), C("C13", "k-th string of the scan is not extract(k)")>>
            ELSE IF itr.fixed /\ want = <<>> /\ ~learn THEN <<C("C13", "k-th string of the scan contradicts earlier extract/locate answers")>>
            ELSE <<>>
  IN  /\ iters' = [iters EXCEPT ![ev.it].cnt = @ + 1, ![ev.it].gotS = IF ev.null = 0 THEN @ \cup {ev.s} ELSE @,
                                 ![ev.it].seq = Append(@, <<ev.null, ev.len, ev.s>>)]
      /\ tabs' = IF learn /\ Cs = <<>> THEN [tabs EXCEPT ![o.tid][k] = ev.s] ELSE tabs
      /\ Report(ev, Cs, o.kind, o.origin) /\ UNCHANGED <<objs, imgs, digs, memo>>

TIterCap(ev) ==
  LET itr == iters[ev.it]  o == objs[itr.h] IN
  /\ Report(ev, IF itr.bogus THEN <<>> ELSE <<C(OpProp(itr.op), itr.op \o ": iterator still has elements after n+2 of them"), C("C13", "iterator does not end")>>, o.kind, o.origin)
  /\ UNCHANGED <<objs, tabs, iters, imgs, digs, memo>>

-----------------------------------------------------------------------------
\* the first fields of every image: type tag, number of elements, maxLength (the block kind: tag, maxLength,
\* cut size, number of strings) - little endian; v < 2^31
LE(v, k) == [i \in 1..k |-> IF i = 1 THEN v % 256 ELSE IF i = 2 THEN (v \div 256) % 256 ELSE IF i = 3 THEN (v \div 65536) % 256
                            ELSE IF i = 4 THEN v \div 16777216 ELSE 0]
HeaderC(o, hd) ==
  IF o.kind = "BLOCKS" THEN
    (IF Len(hd) >= 24 /\ SubSeq(hd, 1, 4) = LE(Tag(o.kind), 4) /\ SubSeq(hd, 17, 24) = LE(N(o), 8) THEN <<>>
     ELSE <<C("C06", "save: image does not start with the kind's type tag / number of strings")>>)
    \o (IF Len(hd) >= 8 /\ (\E ml \in MaxLen(o.S)..(MaxLen(o.S) + 1) : SubSeq(hd, 5, 8) = LE(ml, 4)) THEN <<>>
        ELSE <<C("C15", "save: the image's maxLength field is not in [longest, longest+1]")>>)
  ELSE
    (IF Len(hd) >= 12 /\ SubSeq(hd, 1, 4) = LE(Tag(o.kind), 4) /\ SubSeq(hd, 5, 12) = LE(N(o), 8) THEN <<>>
     ELSE <<C("C06", "save: image does not start with the kind's type tag / number of elements")>>)
    \o (IF Len(hd) >= 16 /\ (\E ml \in MaxLen(o.S)..(MaxLen(o.S) + 1) : SubSeq(hd, 13, 16) = LE(ml, 4)) THEN <<>>
        ELSE <<C("C15", "save: the image's maxLength field is not in [longest, longest+1]")>>)

TSave(ev) ==
  LET o == objs[ev.h]
      key == <<o.kind, ParKey(o.kind, o.par), o.S>>
      built == o.origin = "built"
      srcdiff == ~built /\ o.srcdg # ev.dg                \* re-save of a loaded object differs from its source image
      Cs == IF built /\ key \in DOMAIN digs /\ digs[key] # ev.dg
              THEN <<C("C08", "save: image differs from an earlier image of the same kind, parameters and input")>>
            ELSE <<>>
  IN  /\ digs' = IF built /\ key \notin DOMAIN digs THEN Upd(digs, key, ev.dg) ELSE digs
      /\ imgs' = Upd(imgs, ev.img, [kind |-> o.kind, par |-> o.par, S |-> o.S, tid |-> o.tid, bytes |-> ev.bytes, dg |-> ev.dg,
                                     differs |-> o.differs \/ srcdiff])
      /\ Report(ev, Cs \o (IF "hd" \in DOMAIN ev THEN HeaderC(o, ev.hd) ELSE <<>>), o.kind, o.origin) /\ UNCHANGED <<objs, tabs, iters, memo>>

\* the image of the stream that starts at byte offset `at`
RECURSIVE ImgAt(_, _, _)
ImgAt(ids, at, pos) == IF ids = <<>> THEN 0
                       ELSE IF pos = at THEN Head(ids)
                       ELSE ImgAt(Tail(ids), at, pos + SmallVal(imgs[Head(ids)].bytes))

TLoad(ev) ==
  LET generic == ev.via = "generic"
      at == IF generic THEN 0 ELSE SmallVal(ev.at)             \* the generic loader rewinds the stream
      tgt == ImgAt(ev.imgs, at, 0)
      im == imgs[tgt]
      should == tgt # 0 /\ (IF generic THEN im.kind \in GenericKinds ELSE ev.kind = im.kind)
      P == IF tgt # 0 /\ im.differs THEN "C08" ELSE "C06"
      Cs == IF tgt = 0 THEN (IF ev.null = 1 THEN <<>> ELSE <<C("C06", "load: object produced at a position where no image starts")>>)
            ELSE IF should /\ ev.null = 1 THEN <<C(P, "load: NULL for a valid image")>>
            ELSE IF ~should /\ ev.null = 0 THEN <<C("C16", "load: loader accepted another kind's image")>>
            ELSE IF should /\ ~generic /\ ~(ev.good = 1 /\ LimbsSame(ev.end, AddSmall(ev.at, SmallVal(im.bytes))))
              THEN <<C("C06", "load: loader did not consume exactly the bytes save wrote")>>
            ELSE <<>>
  IN  /\ objs' = IF ev.null = 0 /\ tgt # 0
                   THEN Upd(objs, ev.h, [kind |-> im.kind, par |-> im.par, S |-> im.S, tid |-> im.tid, origin |-> "loaded",
                                         opt |-> ev.opt, differs |-> im.differs, srcdg |-> im.dg])
                   ELSE objs
      /\ Report(ev, Cs, IF tgt # 0 THEN im.kind ELSE "?", "loaded") /\ UNCHANGED <<tabs, iters, imgs, digs, memo>>

KnownTags == {Tag(k) : k \in GenericKinds}
TLoadTag(ev) ==
  LET small == Len(ev.tag) = 2 /\ ev.tag[2] = 0
      known == small /\ ev.tag[1] \in KnownTags
      Cs == IF ~known /\ ev.null = 0 THEN <<C("C16", "generic loader returned an object for an unknown type tag")>> ELSE <<>>
  IN  Report(ev, Cs, IF ev.img \in DOMAIN imgs THEN imgs[ev.img].kind ELSE "?", "image") /\ UNCHANGED <<objs, tabs, iters, imgs, digs, memo>>

TDestroy(ev) ==
  /\ objs' = Drop(objs, ev.h)
  /\ iters' = [x \in {y \in DOMAIN iters : iters[y].h # ev.h} |-> iters[x]]
  /\ memo' = [k \in {y \in DOMAIN memo : y[1] # ev.h} |-> memo[k]]        \* the handle may be reused
  /\ Quiet /\ UNCHANGED <<tabs, imgs, digs>>

TFault(ev) ==
  /\ Report(ev, <<C("C07", CASE ev.e = "crash" -> "the process died during an API call"
                             [] ev.e = "timeout" -> "an API call did not terminate"
                             [] OTHER -> "memory error reported during an API call")>>,
            IF "h" \in DOMAIN ev /\ ev.h \in DOMAIN objs THEN objs[ev.h].kind ELSE "?",
            IF "h" \in DOMAIN ev /\ ev.h \in DOMAIN objs THEN objs[ev.h].origin ELSE "?")
  /\ UNCHANGED <<objs, tabs, iters, imgs, digs, memo>>

-----------------------------------------------------------------------------
Has(ev, f) == f \in DOMAIN ev
ObjOK(ev) == ev.h \in DOMAIN objs
ItOK(ev) == ev.it \in DOMAIN iters /\ iters[ev.it].h \in DOMAIN objs

Skip == Quiet /\ UNCHANGED <<objs, tabs, iters, imgs, digs, memo>>

TInit == /\ l = 1 /\ prog = [id |-> "", focus |-> ""] /\ objs = <<>> /\ tabs = <<>> /\ iters = <<>> /\ imgs = <<>>
         /\ digs = <<>> /\ memo = <<>> /\ nev = 0 /\ nbad = 0

TNext ==
  /\ l <= Len(TraceLog) /\ l' = l + 1 /\ nev' = nev + 1
  /\ LET ev == TraceLog[l] e == ev.e IN
     IF e = "Reset" THEN
       /\ prog' = [id |-> ev.prog, focus |-> IF Has(ev, "focus") THEN ev.focus ELSE ""]
       /\ objs' = <<>> /\ tabs' = <<>> /\ iters' = <<>> /\ imgs' = <<>> /\ memo' = <<>> /\ Quiet /\ UNCHANGED digs
     ELSE
       /\ prog' = prog
       /\ CASE e = "Build" -> TBuild(ev)
            [] e \in {"crash", "timeout", "memerr"} -> TFault(ev)
            [] e \in {"Num", "MaxLen", "Locate", "Extract", "ExtRank", "LocRank", "Save", "Destroy"} /\ ~ObjOK(ev) -> Skip
            [] e \in {"OpenId", "OpenStr"} /\ ~ObjOK(ev) -> Skip
            [] e \in {"IdHas", "IdNext", "StrHas", "StrNext", "IterCap"} /\ ~ItOK(ev) -> Skip
            [] e = "Num" -> TNum(ev)
            [] e = "MaxLen" -> TMaxLen(ev)
            [] e = "Locate" -> TLocate(ev)
            [] e = "Extract" -> TExtract(ev)
            [] e = "ExtRank" -> TExtRank(ev)
            [] e = "LocRank" -> TLocRank(ev)
            [] e = "OpenId" -> TOpen(ev, "id")
            [] e = "OpenStr" -> TOpen(ev, "str")
            [] e \in {"IdHas", "StrHas"} -> THas(ev)
            [] e = "IdNext" -> TIdNext(ev)
            [] e = "StrNext" -> TStrNext(ev)
            [] e = "IterCap" -> TIterCap(ev)
            [] e = "Close" -> /\ iters' = IF ev.it \in DOMAIN iters THEN Drop(iters, ev.it) ELSE iters
                              /\ Quiet /\ UNCHANGED <<objs, tabs, imgs, digs, memo>>
            [] e = "Save" -> TSave(ev)
            [] e = "Load" -> TLoad(ev)
            [] e = "LoadTag" -> TLoadTag(ev)
            [] e = "Destroy" -> TDestroy(ev)
            [] OTHER -> Skip

TSpec == TInit /\ [][TNext]_tvars

\* every line was consumed
Consumed == /\ TLCGet("stats").diameter >= Len(TraceLog) + 1
            /\ PrintT(<<"SUMMARY", ToJson([lines |-> Len(TraceLog)])>>)
=============================================================================
