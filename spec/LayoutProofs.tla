---------------------------- MODULE LayoutProofs ----------------------------
(***************************************************************************)
(* Unbounded arithmetic facts behind the bit-level layouts, proved by      *)
(* TLAPS for ALL lengths, positions and field widths, for the word sizes   *)
(* the code uses: 64 bits (LogSequence: size_t words), 32 bits (libcds     *)
(* bitmaps and the arrays XBW / hash / DAC save word by word) and 8 bits   *)
(* (the scaled-down word of CompMC "logseq", so that the TLC model and the *)
(* library are instances of the same statements).                          *)
(*                                                                         *)
(* LogSequence: field i of width w starts at bit i*w; it lies in word      *)
(*   (i*w) \div W at offset (i*w) % W and, when it does not fit, continues *)
(*   in the NEXT word only (theorems Spans..); the last bit of the last field lies   *)
(*   inside the ceil(n*w / W) words of the array (theorems LastInside..).            *)
(* Bitmaps saved word by word: n \div W + 1 words always hold n bits, the  *)
(*   tighter (n + W - 1) \div W words hold them too, and the two counts    *)
(*   differ exactly when n is not a multiple of W (theorems Counts..): a saver and a *)
(*   loader that use different formulas disagree exactly on bitmaps of 32, *)
(*   64, ... bits - which is why the input shapes of the checks contain    *)
(*   such bitmaps (seeded change C04_C).                                   *)
(***************************************************************************)
EXTENDS Naturals, TLAPS

Spans(W) == \A w \in 1..W, b \in Nat :
               /\ b % W + w <= 2 * W - 1
               /\ (b % W + w > W) => ((b + w - 1) \div W = b \div W + 1)
               /\ (b % W + w <= W) => ((b + w - 1) \div W = b \div W)
Counts(W) == \A n \in Nat :
               /\ W * (n \div W + 1) >= n + 1
               /\ W * ((n + W - 1) \div W) >= n
               /\ (n + W - 1) \div W <= n \div W + 1
               /\ ((n + W - 1) \div W = n \div W + 1) <=> (n % W # 0)
LastInside(W) == \A t \in Nat : t >= 1 => (t - 1) \div W < (t + W - 1) \div W

THEOREM Spans64 == Spans(64) BY DEF Spans
THEOREM Spans32 == Spans(32) BY DEF Spans
THEOREM Spans8  == Spans(8)  BY DEF Spans
THEOREM Counts64 == Counts(64) BY DEF Counts
THEOREM Counts32 == Counts(32) BY DEF Counts
THEOREM Counts8  == Counts(8)  BY DEF Counts
THEOREM LastInside64 == LastInside(64) BY DEF LastInside
THEOREM LastInside32 == LastInside(32) BY DEF LastInside
THEOREM LastInside8  == LastInside(8)  BY DEF LastInside
=============================================================================
