---------------------------- MODULE BlocksCut ----------------------------
(***************************************************************************)
(* The cut rule of the block constructor (StringDictionaryHASHRPDACBlocks) *)
(* and the two binary searches that route a query to its block, written as *)
(* functions of the input alone: which strings form which block does not   *)
(* depend on threads or schedules (C09), and routing finds the block that  *)
(* holds a member / an ID for every cut size (C01, C12 for this kind).     *)
(***************************************************************************)
EXTENDS Naturals, Sequences, FiniteSets

\* lens: lengths of the members in input order; cut: cut size in bytes.
\* Result: 0-based index of the first member of every block (= starting_indexes).
RECURSIVE CutFrom(_, _, _, _, _)
CutFrom(lens, cut, i, acc, starts) ==
  IF i > Len(lens) THEN starts
  ELSE LET st == IF acc = 0 THEN Append(starts, i - 1) ELSE starts   \* sample_next
           a2 == acc + lens[i] + 1                                   \* acc_size += len + 1
       IN  IF i = Len(lens) \/ a2 > cut                              \* !hasNext() || acc_size > cut_size
             THEN CutFrom(lens, cut, i + 1, 0, st)
             ELSE CutFrom(lens, cut, i + 1, a2, st)

Starts(lens, cut) == CutFrom(lens, cut, 1, 0, <<>>)

\* block (1-based) that holds member i (1-based) given the starts
BlockOf(starts, i) == CHOOSE b \in 1..Len(starts) :
                        /\ starts[b] < i
                        /\ (b = Len(starts) \/ i <= starts[b + 1])

\* binary_search_before_index(v, target) for a sorted vector v with an order Leq/Less;
\* returns a 1-based position
BSBefore(v, target, Less(_, _)) ==
  LET GE == {p \in 1..Len(v) : ~Less(v[p], target)}          \* lower_bound: first p with v[p] >= target
  IN  IF GE = {} THEN Len(v)
      ELSE LET pos == CHOOSE p \in GE : \A r \in GE : p <= r
           IN  IF pos > 1 /\ ~Less(target, v[pos - 1]) /\ Less(target, v[pos]) THEN pos - 1 ELSE pos

NatLess(a, b) == a < b
=============================================================================
