---------------------------- MODULE PoolAbs ----------------------------
(***************************************************************************)
(* L1: what any correct worker pool must do, independently of how it is    *)
(* synchronised.  It demands nothing but property C10:                     *)
(*   - a task handed to the pool goes  new -> queued -> running -> done,   *)
(*     each step at most once (so: runs at most once, never concurrently   *)
(*     with itself);                                                       *)
(*   - a worker exits only after stop was requested;                       *)
(*   - wait_workers returns only after every worker exited and every task  *)
(*     that was handed over has run to completion;                         *)
(*   - liveness: every queued task is eventually done (whether or not stop *)
(*     is ever requested); once stop was requested and the client joins,   *)
(*     the join eventually returns.                                        *)
(* WorkerPool (L2) is checked to implement this module by TLC; recorded    *)
(* executions of the real pool are validated against it by PoolTrace.      *)
(***************************************************************************)
EXTENDS Naturals, FiniteSets

CONSTANTS W, Task

VARIABLES st,       \* [Task -> "new" | "queued" | "running" | "done"]
          stopReq,  \* stop_all_workers has started
          wexit,    \* [W -> BOOLEAN]: the worker thread has exited
          joined    \* wait_workers has returned

avars == <<st, stopReq, wexit, joined>>

AInit == /\ st = [t \in Task |-> "new"] /\ stopReq = FALSE
         /\ wexit = [w \in W |-> FALSE] /\ joined = FALSE

Submit(t) == /\ st[t] = "new" /\ st' = [st EXCEPT ![t] = "queued"]
             /\ UNCHANGED <<stopReq, wexit, joined>>
StartT(t) == /\ st[t] = "queued" /\ st' = [st EXCEPT ![t] = "running"]
             /\ UNCHANGED <<stopReq, wexit, joined>>
EndT(t)   == /\ st[t] = "running" /\ st' = [st EXCEPT ![t] = "done"]
             /\ UNCHANGED <<stopReq, wexit, joined>>
StopA     == /\ ~stopReq /\ stopReq' = TRUE /\ UNCHANGED <<st, wexit, joined>>
ExitW(w)  == /\ stopReq /\ ~wexit[w] /\ wexit' = [wexit EXCEPT ![w] = TRUE]
             /\ UNCHANGED <<st, stopReq, joined>>
JoinRet   == /\ ~joined /\ \A w \in W : wexit[w]
             /\ \A t \in Task : st[t] \in {"new", "done"}
             /\ joined' = TRUE /\ UNCHANGED <<st, stopReq, wexit>>

ANext == \/ \E t \in Task : Submit(t) \/ StartT(t) \/ EndT(t)
         \/ StopA \/ (\E w \in W : ExitW(w)) \/ JoinRet

ASafe == AInit /\ [][ANext]_avars

EveryQueuedTaskRuns == \A t \in Task : [](st[t] = "queued" => <>(st[t] = "done"))
ShutdownCompletes   == [](stopReq => <>joined)
=============================================================================
