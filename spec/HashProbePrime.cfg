SPECIFICATION Spec
CONSTANTS TSizes = {1}
MaxKeys = 1
INVARIANT PrimeContract
CHECK_DEADLOCK FALSE
