--------------------------- MODULE BlocksCutMC ---------------------------
(* Exhaustive small-scope check of BlocksCut: all sorted duplicate-free inputs over a     *)
(* 2-letter alphabet with members of length 1..MaxLen, n <= MaxN, every cut size 1..MaxCut *)
EXTENDS BlocksCut, TLC
CONSTANTS MaxLen, MaxN, MaxCut

Sym == {1, 2}
Strs == UNION {[1..k -> Sym] : k \in 1..MaxLen}
LexLess(a, b) == LET m == IF Len(a) < Len(b) THEN Len(a) ELSE Len(b)
                     D == {i \in 1..m : a[i] # b[i]}
                 IN  IF D = {} THEN Len(a) < Len(b)
                     ELSE LET d == CHOOSE x \in D : \A y \in D : x <= y IN a[d] < b[d]

RECURSIVE SortSet(_)
SortSet(T) == IF T = {} THEN <<>>
              ELSE LET mn == CHOOSE x \in T : \A y \in T : x = y \/ LexLess(x, y)
                   IN  <<mn>> \o SortSet(T \ {mn})

VARIABLES S, cut
Init == /\ \E T \in SUBSET Strs : T # {} /\ Cardinality(T) <= MaxN /\ S = SortSet(T)
        /\ cut \in 1..MaxCut
Next == UNCHANGED <<S, cut>>
Spec == Init /\ [][Next]_<<S, cut>>

lens   == [i \in 1..Len(S) |-> Len(S[i])]
st     == Starts(lens, cut)
samp   == [b \in 1..Len(st) |-> S[st[b] + 1]]
Bytes(b) == LET last == IF b = Len(st) THEN Len(S) ELSE st[b + 1]
                idx == (st[b] + 1)..last
                RECURSIVE Sum(_)
                Sum(I) == IF I = {} THEN 0 ELSE LET x == CHOOSE y \in I : TRUE IN lens[x] + 1 + Sum(I \ {x})
            IN  Sum(idx)

TotalBytes == LET RECURSIVE Tot(_)
                  Tot(i) == IF i = 0 THEN 0 ELSE lens[i] + 1 + Tot(i - 1)
              IN  Tot(Len(S))
\* blocks partition the input in order, none is empty
Partition == /\ Len(st) >= 1 /\ st[1] = 0
             /\ \A b \in 1..(Len(st) - 1) : st[b] < st[b + 1]
             /\ st[Len(st)] < Len(S)
\* a block is closed as soon as it exceeds the cut; only the last block may be at or below it
CutBound  == \A b \in 1..Len(st) :
               LET last == IF b = Len(st) THEN Len(S) ELSE st[b + 1]
               IN  /\ b < Len(st) => Bytes(b) > cut
                   /\ Bytes(b) - (lens[last] + 1) <= cut
\* locate(): routing by cut sample finds the block that holds every member
RouteString == \A i \in 1..Len(S) : BSBefore(samp, S[i], LexLess) = BlockOf(st, i)
\* extract(): routing by starting index finds the block that holds every ID (id - 1 is searched)
RouteId     == \A i \in 1..Len(S) : BSBefore(st, i - 1, NatLess) = BlockOf(st, i)
\* extremes named by the property: one string per block, one block
Extremes    == /\ (cut < 2 => Len(st) = Len(S))
               /\ (cut >= TotalBytes => Len(st) = 1)
Inv == Partition /\ CutBound /\ RouteString /\ RouteId /\ Extremes
=============================================================================
