------------------------------- MODULE Codes -------------------------------
(***************************************************************************)
(* C18: a code table is a sequence of 256 bit strings (symbol s at index   *)
(* s+1).  Prefix-freeness, completeness (every proper prefix of a codeword *)
(* has both one-bit extensions among the prefixes - no big integers        *)
(* needed), the alphabetic property of Hu-Tucker codes, and the byte       *)
(* packing of encoded strings (most significant bit first).                *)
(***************************************************************************)
EXTENDS Naturals, Sequences, FiniteSets

IsBitPrefix(p, s) == Len(p) <= Len(s) /\ \A i \in 1..Len(p) : s[i] = p[i]
PrefixFree(T) == \A a, b \in 1..Len(T) : a # b => ~IsBitPrefix(T[a], T[b])
Prefixes(T) == UNION {{SubSeq(T[a], 1, k) : k \in 0..Len(T[a])} : a \in 1..Len(T)}
Words(T) == {T[a] : a \in 1..Len(T)}
Complete(T) == LET P == Prefixes(T) W == Words(T)
               IN  \A p \in P : p \notin W => (Append(p, 0) \in P /\ Append(p, 1) \in P)
BitLess(a, b) == LET m == IF Len(a) < Len(b) THEN Len(a) ELSE Len(b)
                     D == {i \in 1..m : a[i] # b[i]}
                 IN  IF D = {} THEN Len(a) < Len(b)
                     ELSE LET d == CHOOSE x \in D : \A y \in D : x <= y IN a[d] < b[d]
Alphabetic(T) == \A a \in 1..(Len(T) - 1) : BitLess(T[a], T[a + 1])

RECURSIVE Concat(_, _)
Concat(T, s) == IF s = <<>> THEN <<>> ELSE T[Head(s) + 1] \o Concat(T, Tail(s))
ByteOf(b) == b[1] * 128 + b[2] * 64 + b[3] * 32 + b[4] * 16 + b[5] * 8 + b[6] * 4 + b[7] * 2 + b[8]
Pack(bits) == LET n == (Len(bits) + 7) \div 8
                  pad == bits \o <<0, 0, 0, 0, 0, 0, 0>>
              IN  [j \in 1..n |-> ByteOf(SubSeq(pad, 8 * (j - 1) + 1, 8 * j))]
\* plain prefix-code decoding of a bit string: what the chunked decoding table has to compute
RECURSIVE Decode(_, _, _)
Decode(T, bits, acc) ==
  IF bits = <<>> THEN acc
  ELSE LET M == {a \in 1..Len(T) : IsBitPrefix(T[a], bits)}
       IN  IF M = {} THEN acc
           ELSE LET a == CHOOSE x \in M : TRUE
                IN  IF a = 1 THEN Append(acc, 0)                       \* the terminator ends the string
                    ELSE Decode(T, SubSeq(bits, Len(T[a]) + 1, Len(bits)), Append(acc, a - 1))
=============================================================================
