---------------------------- MODULE ChunkDecode ----------------------------
(***************************************************************************)
(* C18, second half: decoding with a chunk table (utils/Coder/             *)
(* DecodingTable: processChunk / getSubstring) written as a function of    *)
(* the code table T, the chunk width K and the encoded bits.               *)
(*                                                                         *)
(*   Entry(T, K, c)  what the table holds for the K-bit chunk c: either    *)
(*        the symbols of the whole codewords that fit into c, with the     *)
(*        number of bits they take (a *regular* entry; the symbols stop    *)
(*        at the terminator if it is among them), or - when c is a proper  *)
(*        prefix of a codeword longer than K - the mark "large": the       *)
(*        decoder then consumes the K bits and walks the code tree bit by  *)
(*        bit until it reaches a leaf.                                     *)
(*   Run   the decoder loop: refill the window to K bits (zero bits once   *)
(*        the input is exhausted, as processChunk does), look the chunk    *)
(*        up, emit, advance; stop at the terminator.                       *)
(*                                                                         *)
(* TLC (CompMC, Which = "chunk"): for every prefix-free complete code over *)
(* 4 symbols with codewords of up to 4 bits, K = 2 and K = 3 (so that      *)
(* codewords longer than the chunk exist), every string of up to 3         *)
(* symbols and both ways of padding the last byte, Run gives the string    *)
(* back.  Deviation of the code that is named, not modelled: the real      *)
(* builder fills in only the chunks it meets while it encodes the          *)
(* dictionary, the model's table is total.  CompTrace evaluates Run with   *)
(* K = 16 on the tables and strings of the real decoder (TDec events).     *)
(***************************************************************************)
EXTENDS Naturals, Sequences, FiniteSets
LOCAL INSTANCE Codes

\* whole codewords at the front of the bit string b, greedily: <<symbols, bits used, saw the terminator>>
RECURSIVE Fit(_, _, _, _)
Fit(T, b, syms, used) ==
  LET rest == SubSeq(b, used + 1, Len(b))
      M == {a \in 1..Len(T) : IsBitPrefix(T[a], rest)}
  IN  IF M = {} THEN <<syms, used, FALSE>>
      ELSE LET a == CHOOSE x \in M : TRUE IN
           IF a = 1 THEN <<Append(syms, 0), used + Len(T[a]), TRUE>>
           ELSE Fit(T, b, Append(syms, a - 1), used + Len(T[a]))

Entry(T, K, c) == LET f == Fit(T, c, <<>>, 0) IN
                  IF f[2] = 0 THEN [large |-> TRUE, syms |-> <<>>, bits |-> K, ending |-> FALSE]
                  ELSE [large |-> FALSE, syms |-> f[1], bits |-> f[2], ending |-> f[3]]

\* the walk below a large entry: the codeword that the bits starting at position p (1-based) spell
LongWord(T, bits, p) == LET M == {a \in 1..Len(T) : IsBitPrefix(T[a], SubSeq(bits, p, Len(bits)))}
                        IN  IF M = {} THEN 0 ELSE CHOOSE a \in M : TRUE

\* bits: the encoded string followed by its padding; p: next unread bit (1-based); zero bits are supplied past the end
Window(bits, p, K) == [i \in 1..K |-> IF p + i - 1 <= Len(bits) THEN bits[p + i - 1] ELSE 0]
RECURSIVE Run(_, _, _, _, _, _)
Run(T, K, bits, p, out, fuel) ==
  IF fuel = 0 \/ p > Len(bits) + K THEN out
  ELSE LET e == Entry(T, K, Window(bits, p, K)) IN
       IF ~e.large THEN
         IF e.ending THEN out \o e.syms
         ELSE Run(T, K, bits, p + e.bits, out \o e.syms, fuel - 1)
       ELSE LET a == LongWord(T, bits \o [i \in 1..K |-> 0], p) IN
            IF a = 0 THEN out
            ELSE IF a = 1 THEN Append(out, 0)
            ELSE Run(T, K, bits, p + Len(T[a]), Append(out, a - 1), fuel - 1)

TableDecode(T, K, bits) == Run(T, K, bits, 1, <<>>, Len(bits) + 2)
=============================================================================
