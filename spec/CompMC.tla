------------------------------- MODULE CompMC -------------------------------
(***************************************************************************)
(* Design-level checks of the component specifications (C17-C20), small    *)
(* scope, exhaustive.  One module, selected by the constant Which:         *)
(*  "vbyte"    decode inverts encode and byte counts agree, all v < 2^13   *)
(*             and limb combinations around every 7-bit / 16-bit boundary  *)
(*  "logseq"   the shift/mask field access of LogSequence transcribed for  *)
(*             a word size of 8 bits: get(set(a,i,v),i) = v and neighbours *)
(*             unchanged, widths 1..8 (incl. full-width and straddling)    *)
(*  "codes"    for every prefix-free complete table over 3 symbols,        *)
(*             Decode(Concat) = identity on terminated strings             *)
(*  "succinct" rank/select are mutually inverse; the fast operators used   *)
(*             by CompTrace equal the plain definitions                    *)
(*  "repair"   Re-Pair as nondeterministic pair replacement: expansion     *)
(*             always reproduces the input, no rule contains 0             *)
(***************************************************************************)
EXTENDS Integers, Sequences, FiniteSets, TLC

CONSTANT Which
IC == INSTANCE IntCodecs
CD == INSTANCE Codes
CK == INSTANCE ChunkDecode
SU == INSTANCE Succinct
RP == INSTANCE RePairSpec

VARIABLES x, y
vars == <<x, y>>

\* ---------------------------------------------------------------- vbyte
Edge == {0, 1, 2, 63, 64, 127, 128, 255, 256, 16383, 16384, 32767, 32768, 65535}
VBInit == \/ x \in 0..8191 /\ y = 0
          \/ x \in Edge /\ y \in Edge
VBLen(L) == LET b == IC!TrimBits(IC!LimbsToBits(L)) IN IF Len(b) = 0 THEN 1 ELSE (Len(b) + 6) \div 7
VBInv == LET L == <<x, y>> e == IC!VBEncode(L) IN
           /\ IC!VBRoundTrip(L) /\ Len(e) = VBLen(L)
           /\ \A j \in 1..Len(e) : (e[j] >= 128) = (j = Len(e))            \* exactly the last byte carries the flag

\* ---------------------------------------------------------------- logseq (word size 8)
WLS == 8
P2(k) == IC!Pow2(k)
Shl(a, k) == IF k >= WLS THEN a ELSE (a * P2(k)) % 256       \* named deviation: x86 masks the shift count
Shr(a, k) == IF k >= WLS THEN a ELSE a \div P2(k)
Bits8(a) == [i \in 1..8 |-> (a \div P2(i - 1)) % 2]
Val8(b) == IC!BitsVal(b)
And8(a, b) == Val8([i \in 1..8 |-> Bits8(a)[i] * Bits8(b)[i]])
Or8(a, b)  == Val8([i \in 1..8 |-> IF Bits8(a)[i] + Bits8(b)[i] > 0 THEN 1 ELSE 0])
Not8(a) == 255 - a
GetField(data, bf, index) ==
  LET bitPos == index * bf  i == bitPos \div WLS  j == bitPos % WLS IN
  IF j + bf <= WLS THEN Shr(Shl(data[i + 1], WLS - j - bf), WLS - bf)
  ELSE Or8(Shr(data[i + 1], j), Shr(Shl(data[i + 2], 2 * WLS - j - bf), WLS - bf))
SetField(data, bf, index, value) ==
  LET bitPos == index * bf  i == bitPos \div WLS  j == bitPos % WLS
      mask == Shl(IF bf >= WLS THEN 255 ELSE Not8(Shl(255, bf)), j)
      d1 == [data EXCEPT ![i + 1] = Or8(And8(data[i + 1], Not8(mask)), Shl(value, j))]
  IN  IF j + bf > WLS
        THEN LET mask2 == Shl(255, bf + j - WLS)
             IN  [d1 EXCEPT ![i + 2] = Or8(And8(d1[i + 2], mask2), Shr(value, WLS - j))]
        ELSE d1
NF == 3
\* x = <<width, data words, abstract values>>, y = number of stores done
LSInit == /\ \E w \in 1..8 : x = <<w, [k \in 1..4 |-> 0], [k \in 1..NF |-> 0]>>
          /\ y = 0
LSNext == /\ y < 2
          /\ \E i \in 0..(NF - 1), v \in 0..255 :
               /\ v < P2(x[1])
               /\ x' = <<x[1], SetField(x[2], x[1], i, v), [x[3] EXCEPT ![i + 1] = v]>>
          /\ y' = y + 1
LSInv == \A i \in 0..(NF - 1) : GetField(x[2], x[1], i) = x[3][i + 1]

\* ---------------------------------------------------------------- codes
BitStr == UNION {[1..k -> {0, 1}] : k \in 1..3}
Tables == {T \in [1..3 -> BitStr] : CD!PrefixFree(T) /\ CD!Complete(T)}
Strs == UNION {[1..k -> {1, 2}] : k \in 0..3}
CDInit == x \in Tables /\ y \in Strs
CDInv == LET s == y \o <<0>> IN
           /\ CD!Decode(x, CD!Concat(x, s), <<>>) = s
           /\ Len(CD!Pack(CD!Concat(x, s))) = (Len(CD!Concat(x, s)) + 7) \div 8

\* ---------------------------------------------------------------- chunk (table decoding, ChunkDecode.tla)
\* codes over 4 symbols (0 = terminator) with codewords of up to 4 bits; chunk widths 2 and 3; padding of the
\* last byte with zeros or with ones (whatever follows the terminator must not matter)
BitStr4 == UNION {[1..k -> {0, 1}] : k \in 1..4}
Tables4 == {T \in [1..4 -> BitStr4] : CD!PrefixFree(T) /\ CD!Complete(T)}
Strs4 == UNION {[1..k -> {1, 2, 3}] : k \in 0..3}
CKInit == x \in Tables4 /\ y \in Strs4
PadTo8(b, v) == b \o [i \in 1..((8 - (Len(b) % 8)) % 8) |-> v]
CKInv == LET s == y \o <<0>>
             b == CD!Concat(x, s)
         IN  \A K \in {2, 3} : \A v \in {0, 1} : CK!TableDecode(x, K, PadTo8(b, v)) = s

\* ---------------------------------------------------------------- succinct
FastPos(B, v) == SelectSeq([i \in 1..Len(B) |-> i], LAMBDA i : B[i] = v)          \* 1-based positions of v
FastRanks(B, v) == [i \in 1..Len(B) |-> Cardinality({k \in 1..i : B[k] = v})]      \* rank at position i-1
SUInit == x \in UNION {[1..k -> {0, 1}] : k \in 1..8} /\ y = 0
SUInv == \A v \in {0, 1} :
           /\ SU!Inverse(x, v)
           /\ FastRanks(x, v) = [i \in 1..Len(x) |-> SU!Rank(x, v, i - 1)]
           /\ [j \in 1..SU!Count(x, v) |-> FastPos(x, v)[j] - 1] = [j \in 1..SU!Count(x, v) |-> SU!Select(x, v, j)]

\* ---------------------------------------------------------------- rg (BitSequenceRG::rank1 transcribed)
\* words of WB bits (the library: 32), a superblock every Factor words: Rs[j] = ones in the first j superblocks;
\* rank1(i): i+1 bits are counted - the superblock counter, whole words since the superblock, then the low
\* (i+1) % WB bits of the next word (a word past the last one is all zero, as the constructor allocates it)
WB == 4
Word(B, a) == [k \in 1..WB |-> IF a * WB + k <= Len(B) THEN B[a * WB + k] ELSE 0]
Pop(wd, upto) == Cardinality({k \in 1..upto : wd[k] = 1})
RsRG(B, f, j) == Cardinality({k \in 1..Len(B) : k <= j * f * WB /\ B[k] = 1})
SumWords(B, lo, hi) == Cardinality({k \in 1..Len(B) : k > lo * WB /\ k <= hi * WB /\ B[k] = 1})
Rank1RG(B, f, i) == LET ii == i + 1  sb == ii \div (f * WB) IN
                    RsRG(B, f, sb) + SumWords(B, sb * f, ii \div WB) + Pop(Word(B, ii \div WB), ii % WB)
RGInit == x \in UNION {[1..k -> {0, 1}] : k \in 1..10} /\ y \in {1, 2}
RGInv == \A i \in 0..(Len(x) - 1) : Rank1RG(x, y, i) = SU!Rank(x, 1, i)

\* ---------------------------------------------------------------- repair
\* x = <<input, current sequence, rules>>, terminals = 3 (symbols 0..2, 0 = terminator)
Inputs == {s \in UNION {[1..k -> 0..2] : k \in 2..6} : s[Len(s)] = 0 /\ s[1] # 0 /\ \A i \in 1..(Len(s) - 1) : ~(s[i] = 0 /\ s[i + 1] = 0)}
RECURSIVE ReplaceAll(_, _, _, _)
ReplaceAll(s, a, b, r) == IF Len(s) < 2 THEN s
                          ELSE IF s[1] = a /\ s[2] = b THEN <<r>> \o ReplaceAll(SubSeq(s, 3, Len(s)), a, b, r)
                          ELSE <<s[1]>> \o ReplaceAll(Tail(s), a, b, r)
Occ(s, a, b) == Len(s) - Len(ReplaceAll(s, a, b, 99))          \* non-overlapping occurrences, left to right
RPInit == \E s \in Inputs : x = <<s, s, <<>>>> /\ y = 0
RPNext == /\ y' = y
          /\ \E a, b \in (1..2) \cup {3 + k - 1 : k \in 1..Len(x[3])} :
               /\ Occ(x[2], a, b) >= 2
               /\ x' = <<x[1], ReplaceAll(x[2], a, b, 3 + Len(x[3])), Append(x[3], <<a, b>>)>>
RPInv == /\ RP!ExpandSeq(x[3], 3, x[2]) = x[1]
         /\ RP!NoTerminatorInRules(x[3]) /\ RP!WellFounded(x[3], 3)
         /\ RP!Compact(x[2]) = x[2]

Init == CASE Which = "vbyte" -> VBInit [] Which = "logseq" -> LSInit [] Which = "codes" -> CDInit [] Which = "chunk" -> CKInit
          [] Which = "succinct" -> SUInit [] Which = "rg" -> RGInit [] Which = "repair" -> RPInit
Next == CASE Which = "logseq" -> LSNext [] Which = "repair" -> RPNext [] OTHER -> UNCHANGED vars
Inv == CASE Which = "vbyte" -> VBInv [] Which = "logseq" -> LSInv [] Which = "codes" -> CDInv [] Which = "chunk" -> CKInv
         [] Which = "succinct" -> SUInv [] Which = "rg" -> RGInv [] Which = "repair" -> RPInv
Spec == Init /\ [][Next]_vars
=============================================================================
