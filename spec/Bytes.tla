------------------------------ MODULE Bytes ------------------------------
(* Byte strings as sequences of 0..255; unsigned lexicographic order; the      *)
(* validity domain of dictionary inputs; 16-bit limb arithmetic for quantities *)
(* that do not fit TLC's 32-bit integers.                                      *)
EXTENDS Naturals, Sequences, FiniteSets

Byte      == 0..255
LegalByte == 2..254      \* 0 terminator, 1 FM-index separator, 255 XBW / Re-Pair sentinel

MinI(a, b) == IF a <= b THEN a ELSE b

\* strict unsigned lexicographic order
LexLess(a, b) ==
  LET m == MinI(Len(a), Len(b))
      D == {i \in 1..m : a[i] # b[i]}
  IN  IF D = {} THEN Len(a) < Len(b)
      ELSE LET d == CHOOSE x \in D : \A y \in D : x <= y IN a[d] < b[d]

IsPrefix(p, s) == Len(p) <= Len(s) /\ \A i \in 1..Len(p) : s[i] = p[i]
IsSubstr(p, s) == \E k \in 0..(Len(s) - Len(p)) : \A i \in 1..Len(p) : s[k + i] = p[i]

IsLegalString(s) == Len(s) >= 1 /\ \A j \in 1..Len(s) : s[j] \in LegalByte

\* the inputs the properties quantify over: n >= 1, non-empty members over 0x02..0xFE,
\* strictly increasing in unsigned byte order (sorted and duplicate-free)
ValidInput(S) ==
  /\ Len(S) >= 1
  /\ \A i \in 1..Len(S) : IsLegalString(S[i])
  /\ \A i \in 1..(Len(S) - 1) : LexLess(S[i], S[i + 1])

Range(f) == {f[x] : x \in DOMAIN f}
MaxLen(S) == LET L == {Len(S[i]) : i \in 1..Len(S)} IN CHOOSE m \in L : \A x \in L : x <= m

\* position of q in the sequence T (0 when absent); T has no duplicates
IndexOf(T, q) == IF \E i \in 1..Len(T) : T[i] = q THEN CHOOSE i \in 1..Len(T) : T[i] = q ELSE 0

-----------------------------------------------------------------------------
\* Little-endian 16-bit limbs (lists) for values up to 2^64-1.
Limb == 0..65535
\* the value of a limb list when it is known to be small (<= 2 limbs, < 2^31)
IsSmall(L) == \A i \in 1..Len(L) : (i > 2 => L[i] = 0) /\ (i = 2 => L[i] < 32768)
SmallVal(L) == (IF Len(L) >= 1 THEN L[1] ELSE 0) + (IF Len(L) >= 2 THEN L[2] * 65536 ELSE 0)
IsZeroL(L)  == \A i \in 1..Len(L) : L[i] = 0
\* L (limbs) equals the natural number v (v < 2^31)
LimbsEq(L, v) == IsSmall(L) /\ SmallVal(L) = v
\* L + d = M as limb lists (d small natural), used for stream positions
RECURSIVE AddSmall(_, _)
AddSmall(L, d) == IF L = <<>> THEN (IF d = 0 THEN <<>> ELSE <<d % 65536>> \o AddSmall(<<>>, d \div 65536))
                  ELSE LET s == L[1] + (d % 65536)
                       IN  <<s % 65536>> \o AddSmall(Tail(L), (d \div 65536) + (s \div 65536))
RECURSIVE Norm(_)
Norm(L) == IF L = <<>> THEN <<>> ELSE IF L[Len(L)] = 0 THEN Norm(SubSeq(L, 1, Len(L) - 1)) ELSE L
LimbsSame(L, M) == Norm(L) = Norm(M)
=============================================================================
