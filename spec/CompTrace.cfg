SPECIFICATION TSpec
CHECK_DEADLOCK FALSE
POSTCONDITION Consumed
