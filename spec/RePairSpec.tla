----------------------------- MODULE RePairSpec -----------------------------
(***************************************************************************)
(* C20: a Re-Pair result is a grammar (rule r = terminals + k expands to   *)
(* the pair rules[k+1]) and the compressor's output array, in which a      *)
(* negative entry -(p+1) is a gap pointer to position p.  Compact is the   *)
(* gap-following loop every constructor uses; expanding the compacted      *)
(* sequence must reproduce the input, no rule may contain the terminator   *)
(* 0, and `bits` must suffice for every terminal and rule identifier.      *)
(***************************************************************************)
EXTENDS Integers, Sequences

RECURSIVE CompactFrom(_, _)
CompactFrom(a, i) == IF i > Len(a) THEN <<>>                      \* i is 1-based here; array positions are 0-based
                     ELSE IF a[i] >= 0 THEN <<a[i]>> \o CompactFrom(a, i + 1)
                     ELSE CompactFrom(a, -(a[i] + 1) + 1)
Compact(a) == CompactFrom(a, 1)

RECURSIVE Expand(_, _, _)
Expand(rules, terminals, s) == IF s < terminals THEN <<s>>
                               ELSE Expand(rules, terminals, rules[s - terminals + 1][1]) \o
                                    Expand(rules, terminals, rules[s - terminals + 1][2])
RECURSIVE ExpandSeq(_, _, _)
ExpandSeq(rules, terminals, c) == IF c = <<>> THEN <<>>
                                  ELSE Expand(rules, terminals, Head(c)) \o ExpandSeq(rules, terminals, Tail(c))
Lossless(input, rules, terminals, array) == ExpandSeq(rules, terminals, Compact(array)) = input
NoTerminatorInRules(rules) == \A k \in 1..Len(rules) : rules[k][1] # 0 /\ rules[k][2] # 0
\* a rule only refers to terminals and to rules created before it
WellFounded(rules, terminals) == \A k \in 1..Len(rules) : rules[k][1] < terminals + k - 1 /\ rules[k][2] < terminals + k - 1
RECURSIVE P2(_)
P2(k) == IF k = 0 THEN 1 ELSE 2 * P2(k - 1)
BitsSuffice(bits, terminals, nrules) == bits <= 30 => terminals + nrules <= P2(bits)
=============================================================================
