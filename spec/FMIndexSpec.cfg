SPECIFICATION Spec
CONSTANTS Sigma = {97, 98}
MaxLen = 2
MaxN = 3
Steps = {1, 2, 3}
INVARIANT Inv
CHECK_DEADLOCK FALSE
