------------------------------ MODULE CSDMC ------------------------------
(* Small-scope instance of CSD for exhaustive checking with TLC. *)
EXTENDS CSD
P0 == [bucket |-> 2, overhead |-> 0, sparse |-> 0, bparam |-> 4, bwt |-> 0, cut |-> 1, threads |-> 1]
MCStrs == {<<97>>, <<98>>, <<97, 98>>, <<97, 254>>}
MCKindPars == {<<"PFC", P0>>, <<"PFC", [P0 EXCEPT !.bucket = 1]>>, <<"HASHHF", P0>>, <<"FMINDEX", [P0 EXCEPT !.bwt = 2]>>,
               <<"XBW", P0>>, <<"BLOCKS", P0>>}
QStrs == {<<97>>, <<97, 98>>, <<254>>}
QKindPars == {<<"PFC", [P0 EXCEPT !.bucket = 1]>>, <<"HASHHF", P0>>, <<"FMINDEX", [P0 EXCEPT !.bwt = 2]>>}
\* observation variable hidden from the state space
View == <<objs, imgs, iters>>
\* bound the history: at most 2 objects ever, 1 image, 1 iterator
Bound == Cardinality(DOMAIN objs) <= 2 /\ Len(imgs) <= 1 /\ Cardinality(DOMAIN iters) <= 1
=============================================================================
