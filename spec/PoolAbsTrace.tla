-------------------------- MODULE PoolAbsTrace --------------------------
(***************************************************************************)
(* L1 validation: is every recorded execution of the real pool a           *)
(* behaviour of PoolAbs that ends with wait_workers having returned?       *)
(* This is the *property verdict* of an execution (C10): it demands        *)
(* nothing about how the pool synchronises.  Used for executions recorded  *)
(* under the deterministic scheduler (events totally ordered) and for      *)
(* free-running stress executions whose outcome events are serialised by   *)
(* a harness-side lock held across the logged transition.                  *)
(*                                                                         *)
(* Monitor mode: every event is consumed; the first event of an execution  *)
(* that PoolAbs does not allow is recorded with the execution's number.    *)
(***************************************************************************)
EXTENDS Naturals, Sequences, FiniteSets, TLC, Json, IOUtils

CONSTANTS NW, NT
W    == 1..NW
Task == 1..NT

VARIABLES st, stopReq, wexit, joined
INSTANCE PoolAbs
av == <<st, stopReq, wexit, joined>>

TraceLog == ndJsonDeserialize(IOEnv.TRACE)
OutFile  == IOEnv.OUT

VARIABLES l, ok, run, bad, nruns, nbad, flushed
tvars == <<l, ok, run, bad, nruns, nbad, flushed>>

Act(ev) ==
  CASE ev.e = "Submit"       -> ev.task \in Task /\ Submit(ev.task)
    [] ev.e = "TaskRun"      -> ev.task \in Task /\ StartT(ev.task)
    [] ev.e = "TaskEnd"      -> ev.task \in Task /\ EndT(ev.task)
    [] ev.e = "StopCall"     -> StopA
    [] ev.e = "exit"         -> ev.t \in W /\ ExitW(ev.t)
    [] ev.e = "JoinReturned" -> JoinRet
    [] ev.e = "End"          -> joined /\ UNCHANGED av     \* the execution completed
    [] ev.e \in {"Deadlock", "Timeout", "Crash"} -> FALSE
    [] OTHER -> UNCHANGED av                               \* sync-level events: not L1's business

TInit == AInit /\ l = 1 /\ ok = TRUE /\ run = 0 /\ bad = <<>> /\ nruns = 0 /\ nbad = 0 /\ flushed = FALSE

TNext ==
  \/ /\ l <= Len(TraceLog) /\ l' = l + 1 /\ flushed' = flushed
     /\ LET ev == TraceLog[l] IN
        IF ev.e = "Reset" THEN
          /\ st' = [t \in Task |-> "new"] /\ stopReq' = FALSE /\ wexit' = [w \in W |-> FALSE] /\ joined' = FALSE
          /\ ok' = (ev.nw = NW /\ ev.nt = NT) /\ run' = ev.run /\ nruns' = nruns + 1
          /\ nbad' = IF ev.nw = NW /\ ev.nt = NT THEN nbad ELSE nbad + 1
          /\ bad' = IF ev.nw = NW /\ ev.nt = NT THEN bad ELSE Append(bad, [run |-> ev.run, line |-> l, e |-> "config-mismatch"])
        ELSE IF ~ok THEN UNCHANGED <<av, ok, run, bad, nruns, nbad>>
        ELSE IF ENABLED Act(ev) THEN Act(ev) /\ UNCHANGED <<ok, run, bad, nruns, nbad>>
        ELSE /\ UNCHANGED <<av, run, nruns>>
             /\ ok' = FALSE /\ nbad' = nbad + 1
             /\ bad' = IF Len(bad) < 200
                         THEN Append(bad, [run |-> run, line |-> l, e |-> ev.e,
                                           task |-> IF ev.e \in {"Submit", "TaskRun", "TaskEnd"} THEN ev.task ELSE 0])
                         ELSE bad
  \/ /\ l = Len(TraceLog) + 1 /\ ~flushed /\ flushed' = TRUE
     /\ ndJsonSerialize(OutFile, <<[runs |-> nruns, rejected |-> nbad, lines |-> Len(TraceLog)]>> \o bad)
     /\ UNCHANGED <<av, l, ok, run, bad, nruns, nbad>>

TSpec == TInit /\ [][TNext]_<<av, tvars>>
Consumed == TLCGet("stats").diameter >= Len(TraceLog) + 1
=============================================================================
