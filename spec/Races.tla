------------------------------ MODULE Races ------------------------------
(***************************************************************************)
(* C11 at design level: every access the pool and the block constructor    *)
(* make to shared data is ordered by happens-before with every conflicting *)
(* access, in every interleaving.                                          *)
(*                                                                         *)
(* WorkerPool.tla is extended with vector clocks (FastTrack style):        *)
(*   vc[t]      clock of thread t                                          *)
(*   lk[L]      clock released into mutex L by its last unlock             *)
(*   lastW[x]   <<thread, clock>> of the last write of location x          *)
(*   lastR[x]   per-thread clock of the last read of x                     *)
(* acquire(L): vc[t] := vc[t] |_| lk[L];   release(L): lk[L] := vc[t],     *)
(* vc[t][t]++;  join(w): vc[PID] := vc[PID] |_| vc[w].  Condition-variable *)
(* notifications carry no happens-before edge (only the mutex re-acquire   *)
(* does), which is the conservative reading of the C++ memory model.       *)
(*                                                                         *)
(* Each L2 action is conjoined with the accesses the code performs at that *)
(* point.  Locations: the queue, each stop flag, parts_done/tasks_done, the *)
(* parts vector (its size/buffer) and each slot, and the closure object of *)
(* each task (written by the producer before it is queued, read by the     *)
(* worker that runs it).  RaceFree is the invariant.                       *)
(***************************************************************************)
EXTENDS WorkerPool

\* "none" = the accesses as the code makes them.  The other values are deliberately racy variants used
\* as a self-test of this module (the check fails if TLC does not flag them):
\*   "done_after_unlock": parts_done++ moved after the unlock of m
\*   "slot_without_m":    parts[idx] = sd done before m is taken
CONSTANT Seeded

VARIABLES vc, lk, lastW, lastR, race
rvars == <<vc, lk, lastW, lastR, race>>

Locks == {<<"shared", 0>>, <<"qm", 0>>, <<"m", 0>>} \cup {<<"stop", i>> : i \in W}
Locs  == {<<"q", 0>>, <<"done", 0>>, <<"vec", 0>>} \cup {<<"stopped", i>> : i \in W}
           \cup {<<"slot", t>> : t \in Task} \cup {<<"clos", t>> : t \in Task}

Zero == [u \in Thr |-> 0]
Max(a, b) == IF a >= b THEN a ELSE b
VJoin(a, b) == [u \in Thr |-> Max(a[u], b[u])]
RECURSIVE JoinAll(_, _)
JoinAll(v, Ls) == IF Ls = {} THEN v
                  ELSE LET L == CHOOSE x \in Ls : TRUE IN JoinAll(VJoin(v, lk[L]), Ls \ {L})

RInit == /\ vc = [t \in Thr |-> [u \in Thr |-> IF u = t THEN 1 ELSE 0]]
         /\ lk = [L \in Locks |-> Zero]
         /\ lastW = [x \in Locs |-> <<0, 0>>]
         /\ lastR = [x \in Locs |-> Zero]
         /\ race = <<>>

\* thread t acquires acq, reads rd, writes wr, releases rel (in that order, one L2 action)
Tr(t, acq, rd, wr, rel) ==
  LET v1 == JoinAll(vc[t], acq)
      wOrdered(x) == lastW[x][1] = 0 \/ lastW[x][1] = t \/ lastW[x][2] <= v1[lastW[x][1]]
      rOrdered(x) == \A u \in Thr : u = t \/ lastR[x][u] <= v1[u]
      badR == {x \in rd : ~wOrdered(x)}
      badW == {x \in wr : ~wOrdered(x) \/ ~rOrdered(x)}
  IN  /\ race' = IF badR \cup badW = {} THEN race
                 ELSE IF race = <<>> THEN <<t, CHOOSE x \in badR \cup badW : TRUE>> ELSE race
      /\ lastW' = [x \in Locs |-> IF x \in wr THEN <<t, v1[t]>> ELSE lastW[x]]
      /\ lastR' = [x \in Locs |-> IF x \in rd THEN [lastR[x] EXCEPT ![t] = v1[t]] ELSE lastR[x]]
      /\ lk' = [L \in Locks |-> IF L \in rel THEN v1 ELSE lk[L]]
      /\ vc' = [vc EXCEPT ![t] = IF rel = {} THEN v1 ELSE [v1 EXCEPT ![t] = @ + 1]]

Sh == <<"shared", 0>>  Qm == <<"qm", 0>>  Mm == <<"m", 0>>
St(i) == <<"stop", i>>
Q == <<"q", 0>>  Dn == <<"done", 0>>  Vec == <<"vec", 0>>

\* the private-mutex sections are lock; access; unlock in one action
RdStop(w)  == Tr(w, {St(w)}, {<<"stopped", w>>}, {}, {St(w)})
RdQ(w)     == Tr(w, {Qm}, {Q}, {}, {Qm})
NoAcc(t)   == Tr(t, {}, {}, {}, {})

RWorker(w) ==
  \/ Head1(w) /\ RdStop(w)
  \/ Head2(w) /\ RdQ(w)
  \/ Lock(w) /\ Tr(w, {Sh}, {}, {}, {})
  \/ Pred1(w) /\ RdStop(w)
  \/ Pred2(w) /\ RdQ(w)
  \/ Wait(w) /\ Tr(w, {}, {}, {}, {Sh})
  \/ Wake(w) /\ Tr(w, {Sh}, {}, {}, {})
  \/ Chk1(w) /\ RdStop(w)
  \/ Chk2(w) /\ RdQ(w)
  \/ Chk3(w) /\ RdQ(w)
  \/ BrkUnlock(w) /\ Tr(w, {}, {}, {}, {Sh})
  \/ ContUnlock(w) /\ Tr(w, {}, {}, {}, {Sh})
  \/ Pop(w) /\ Tr(w, {Qm}, {Q}, {Q}, {Qm})
  \/ Unlock(w) /\ Tr(w, {}, {}, {}, {Sh})
  \/ Notify(w) /\ NoAcc(w)
  \/ RunBegin(w) /\ (IF Seeded = "slot_without_m"
                       THEN Tr(w, {}, {<<"clos", tmp[w]>>, Vec}, {<<"slot", tmp[w]>>}, {})
                       ELSE Tr(w, {}, {<<"clos", tmp[w]>>}, {}, {}))      \* the task object is invoked
  \/ RunEnd(w) /\ NoAcc(w)
  \/ ExitN(w) /\ NoAcc(w)
  \/ TLockM(w) /\ Tr(w, {Mm}, {}, {}, {})
  \/ TCrit(w) /\ (IF Seeded = "done_after_unlock" THEN Tr(w, {}, {Vec}, {<<"slot", tmp[w]>>}, {})
                  ELSE IF Client = "P2"
                    THEN Tr(w, {}, {Vec, Dn}, {<<"slot", tmp[w]>>, Dn}, {})   \* parts[idx] = sd; parts_done++
                    ELSE Tr(w, {}, {Dn}, {Dn}, {}))                            \* tasks_done++
  \/ TUnlockM(w) /\ Tr(w, {}, {}, {}, {Mm})
  \/ TNotify2(w) /\ (IF Seeded = "done_after_unlock" THEN Tr(w, {}, {Dn}, {Dn}, {}) ELSE NoAcc(w))
  \/ StopL(w) /\ Tr(w, {Sh}, {}, {}, {})
  \/ Stop(w) /\ Tr(w, {St(si[w])}, {}, {<<"stopped", si[w]>>}, {St(si[w])})
  \/ StopU(w) /\ Tr(w, {}, {}, {}, {Sh})
  \/ StopN(w) /\ NoAcc(w)

RClient ==
  \/ CNext /\ (IF si[PID] <= NT THEN Tr(PID, {}, {}, {<<"clos", si[PID]>>}, {}) ELSE NoAcc(PID))  \* builds the closure
  \/ CLockM /\ Tr(PID, {Mm}, {Vec}, {Vec}, {})                     \* parts.size(); parts.push_back(nullptr)
  \/ CUnlockM /\ Tr(PID, {}, {}, {}, {Mm})
  \/ AddL /\ Tr(PID, {Sh}, {}, {}, {})
  \/ Add /\ Tr(PID, {Qm}, {Q}, {Q}, {Qm})
  \/ AddU /\ Tr(PID, {}, {}, {}, {Sh})
  \/ AddN /\ NoAcc(PID)
  \/ CLockM2 /\ Tr(PID, {Mm}, {Dn, Vec}, {}, {})                   \* predicate parts_done == parts.size()
  \/ CWait /\ Tr(PID, {}, {}, {}, {Mm})
  \/ CWake /\ Tr(PID, {Mm}, {Dn, Vec}, {}, {})
  \/ StopL(PID) /\ Tr(PID, {Sh}, {}, {}, {})
  \/ Stop(PID) /\ Tr(PID, {St(si[PID])}, {}, {<<"stopped", si[PID]>>}, {St(si[PID])})
  \/ StopU(PID) /\ Tr(PID, {}, {}, {}, {Sh})
  \/ StopN(PID) /\ NoAcc(PID)
  \/ /\ Join
     /\ vc' = [vc EXCEPT ![PID] = VJoin(vc[PID], vc[si[PID]])]
     /\ UNCHANGED <<lk, lastW, lastR, race>>
  \* after the join the constructor reads every slot (save, queries): the final reads
  \/ JoinEnd /\ Tr(PID, {}, {<<"slot", t>> : t \in Task} \cup {Vec, Dn}, {}, {})

RNext == (\E w \in W : RWorker(w)) \/ RClient \/ (Finished /\ UNCHANGED <<vars, rvars>>)
RSpec == Init /\ RInit /\ [][RNext]_<<vars, rvars>>

RaceFree == race = <<>>
=============================================================================
