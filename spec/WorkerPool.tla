--------------------------- MODULE WorkerPool ---------------------------
(***************************************************************************)
(* L2 model of parallel/Worker.hpp, one action per critical section /      *)
(* synchronisation step of the code, with the mutexes and the condition    *)
(* variable modelled explicitly and WITHOUT spurious wake-ups (so liveness *)
(* cannot be rescued by them).                                             *)
(*                                                                         *)
(* Threads: workers 1..NW and the client thread PID = NW+1.                *)
(* Client patterns (CONSTANT Client):                                      *)
(*   "P1"  add all tasks; stop_all_workers; wait_workers                   *)
(*   "P2"  the block constructor: reserve slot under m; add_task; ...;     *)
(*         cv2.wait(m, parts_done = #parts); stop; join. Worker task:      *)
(*         build; lock m; store slot; parts_done++; unlock m; notify cv2   *)
(*   "P5"  P2 with one dependency between tasks: the body of task 1 waits *)
(*         until the body of task 2 has been entered (NT >= 2, NW >= 2):   *)
(*         a queued task must be picked up while another worker is busy -  *)
(*         the work-conservation side of "no wake-up is lost".             *)
(*   "P3"  the pinned test: tasks count under m, the task that completes   *)
(*         the count calls stop_all_workers itself (holding m); the client *)
(*         only adds and joins.                                            *)
(* Protocol (CONSTANT Locked): TRUE = add_task / stop_all_workers change   *)
(* the queue / the stop flags while holding shared_mutex; FALSE = the      *)
(* original code, which changed them with only the private mutexes held.   *)
(* The private mutexes (queue mutex, per-worker stop mutex) protect one    *)
(* access each and nothing is acquired inside them, so a lock/unlock pair  *)
(* on them is one atomic action here; PoolTrace checks that assumption on  *)
(* recorded executions.                                                    *)
(***************************************************************************)
EXTENDS Naturals, Sequences, FiniteSets, TLC

CONSTANTS NW,       \* number of workers  (>= 1)
          NT,       \* number of tasks    (>= 0)
          Client,   \* "P1" | "P2" | "P3" | "P5"
          Locked    \* BOOLEAN

W    == 1..NW
PID  == NW + 1
Thr  == 1..(NW + 1)
Task == 1..NT
IsP2 == Client \in {"P2", "P5"}

VARIABLES
  q,        \* the queue: sequence of task ids
  stopped,  \* [W -> BOOLEAN]            Worker::_stopped
  sh,       \* owner of shared_mutex, 0 = free
  waiting,  \* set of workers parked in queue_cv
  pc,       \* [Thr -> program point]
  tmp,      \* [W -> task popped]
  si,       \* [Thr -> index used by the stop loop / add loop / join loop]
  started,  \* [Task -> number of times the task body was entered]
  ended,    \* [Task -> number of times the task body returned]
  m,        \* owner of the client's mutex m (P2, P3), 0 = free
  waiting2, \* TRUE iff the client is parked in cv2 (P2)
  done,     \* parts_done / tasks_done: counter under m
  slots     \* [Task -> 0 | task id]: parts[i]; filled by the task that was given slot i (P2)

vars == <<q, stopped, sh, waiting, pc, tmp, si, started, ended, m, waiting2, done, slots>>

TypeOK ==
  /\ q \in Seq(Task) /\ stopped \in [W -> BOOLEAN] /\ sh \in 0..(NW+1)
  /\ waiting \subseteq W /\ tmp \in [W -> 0..NT] /\ si \in [Thr -> 0..(NW+NT+2)]
  /\ started \in [Task -> Nat] /\ ended \in [Task -> Nat] /\ m \in 0..(NW+1)
  /\ waiting2 \in BOOLEAN /\ done \in 0..NT /\ slots \in [Task -> 0..NT]

Init ==
  /\ q = <<>> /\ stopped = [w \in W |-> FALSE] /\ sh = 0 /\ waiting = {}
  /\ pc = [t \in Thr |-> IF t = PID THEN "c_next" ELSE "head1"]
  /\ tmp = [w \in W |-> 0] /\ si = [t \in Thr |-> 1]
  /\ started = [t \in Task |-> 0] /\ ended = [t \in Task |-> 0]
  /\ m = 0 /\ waiting2 = FALSE /\ done = 0 /\ slots = [t \in Task |-> 0]

Go(t, to) == pc' = [pc EXCEPT ![t] = to]

-----------------------------------------------------------------------------
(* Worker::run()                                                             *)

\* while (!stopped() ...
Head1(w) == /\ pc[w] = "head1"
            /\ Go(w, IF ~stopped[w] THEN "lock" ELSE "head2")
            /\ UNCHANGED <<q, stopped, sh, waiting, tmp, si, started, ended, m, waiting2, done, slots>>
\* ... || !queue.empty())
Head2(w) == /\ pc[w] = "head2"
            /\ Go(w, IF q # <<>> THEN "lock" ELSE "exitn")
            /\ UNCHANGED <<q, stopped, sh, waiting, tmp, si, started, ended, m, waiting2, done, slots>>
\* std::unique_lock ul(shared_mutex)
Lock(w)  == /\ pc[w] = "lock" /\ sh = 0 /\ sh' = w
            /\ Go(w, "pred1")
            /\ UNCHANGED <<q, stopped, waiting, tmp, si, started, ended, m, waiting2, done, slots>>
\* predicate of queue_cv.wait(ul, pred): stopped() ...
Pred1(w) == /\ pc[w] = "pred1" /\ sh = w
            /\ Go(w, IF stopped[w] THEN "chk1" ELSE "pred2")
            /\ UNCHANGED <<q, stopped, sh, waiting, tmp, si, started, ended, m, waiting2, done, slots>>
\* ... || !queue.empty()
Pred2(w) == /\ pc[w] = "pred2" /\ sh = w
            /\ Go(w, IF q # <<>> THEN "chk1" ELSE "wait")
            /\ UNCHANGED <<q, stopped, sh, waiting, tmp, si, started, ended, m, waiting2, done, slots>>
\* wait(ul): release shared_mutex and park, atomically
Wait(w)  == /\ pc[w] = "wait" /\ sh = w /\ sh' = 0 /\ waiting' = waiting \cup {w}
            /\ Go(w, "blocked")
            /\ UNCHANGED <<q, stopped, tmp, si, started, ended, m, waiting2, done, slots>>
\* return from wait(ul): only after a notify removed w from the wait set; re-acquires
Wake(w)  == /\ pc[w] = "blocked" /\ w \notin waiting /\ sh = 0 /\ sh' = w
            /\ Go(w, "pred1")
            /\ UNCHANGED <<q, stopped, waiting, tmp, si, started, ended, m, waiting2, done, slots>>
\* if (stopped() && ...
Chk1(w)  == /\ pc[w] = "chk1" /\ sh = w
            /\ Go(w, IF stopped[w] THEN "chk2" ELSE "chk3")
            /\ UNCHANGED <<q, stopped, sh, waiting, tmp, si, started, ended, m, waiting2, done, slots>>
\* ... queue.empty()) break;
Chk2(w)  == /\ pc[w] = "chk2" /\ sh = w
            /\ Go(w, IF q = <<>> THEN "brk_unlock" ELSE "chk3")
            /\ UNCHANGED <<q, stopped, sh, waiting, tmp, si, started, ended, m, waiting2, done, slots>>
BrkUnlock(w) == /\ pc[w] = "brk_unlock" /\ sh = w /\ sh' = 0
                /\ Go(w, "exitn")
                /\ UNCHANGED <<q, stopped, waiting, tmp, si, started, ended, m, waiting2, done, slots>>
\* if (queue.empty()) continue;
Chk3(w)  == /\ pc[w] = "chk3" /\ sh = w
            /\ Go(w, IF q = <<>> THEN "cont_unlock" ELSE "pop")
            /\ UNCHANGED <<q, stopped, sh, waiting, tmp, si, started, ended, m, waiting2, done, slots>>
ContUnlock(w) == /\ pc[w] = "cont_unlock" /\ sh = w /\ sh' = 0
                 /\ Go(w, "head1")
                 /\ UNCHANGED <<q, stopped, waiting, tmp, si, started, ended, m, waiting2, done, slots>>
\* auto task = queue.pop();   (pop of an empty std::deque is undefined: modelled as disabled,
\* PopSafe below states that the point is never reached with an empty queue)
Pop(w)   == /\ pc[w] = "pop" /\ sh = w /\ q # <<>>
            /\ tmp' = [tmp EXCEPT ![w] = Head(q)] /\ q' = Tail(q)
            /\ Go(w, "unlock")
            /\ UNCHANGED <<stopped, sh, waiting, si, started, ended, m, waiting2, done, slots>>
\* ul.unlock()
Unlock(w) == /\ pc[w] = "unlock" /\ sh = w /\ sh' = 0
             /\ Go(w, "notify")
             /\ UNCHANGED <<q, stopped, waiting, tmp, si, started, ended, m, waiting2, done, slots>>
\* queue_cv.notify_all()
Notify(w) == /\ pc[w] = "notify" /\ waiting' = {}
             /\ Go(w, "run")
             /\ UNCHANGED <<q, stopped, sh, tmp, si, started, ended, m, waiting2, done, slots>>
\* task(): entry
RunBegin(w) == /\ pc[w] = "run"
               /\ started' = [started EXCEPT ![tmp[w]] = @ + 1]
               /\ Go(w, IF Client = "P1" THEN "t_end" ELSE "t_lockm")
               /\ UNCHANGED <<q, stopped, sh, waiting, tmp, si, ended, m, waiting2, done, slots>>
\* task(): return
RunEnd(w) == /\ pc[w] = "t_end"
             /\ ended' = [ended EXCEPT ![tmp[w]] = @ + 1]
             /\ Go(w, "head1")
             /\ UNCHANGED <<q, stopped, sh, waiting, tmp, si, started, m, waiting2, done, slots>>
\* after the loop: queue_cv.notify_all(); thread exits
ExitN(w) == /\ pc[w] = "exitn" /\ waiting' = {}
            /\ Go(w, "done")
            /\ UNCHANGED <<q, stopped, sh, tmp, si, started, ended, m, waiting2, done, slots>>

-----------------------------------------------------------------------------
(* Task bodies of the client patterns P2 / P3 (executed by the worker)       *)

\* P5: task 1 first waits (on a condition variable of its own) until task 2 has been entered
TLockM(w) == /\ pc[w] = "t_lockm" /\ m = 0 /\ m' = w
             /\ (Client = "P5" /\ tmp[w] = 1 /\ NT >= 2) => started[2] > 0
             /\ Go(w, "t_crit")
             /\ UNCHANGED <<q, stopped, sh, waiting, tmp, si, started, ended, waiting2, done, slots>>
\* P2: parts[idx] = sd; parts_done++      P3: tasks_done++; if (tasks_done == N) stop_all_workers()
TCrit(w) == /\ pc[w] = "t_crit" /\ m = w
            /\ done' = done + 1
            /\ slots' = IF IsP2 THEN [slots EXCEPT ![tmp[w]] = tmp[w]] ELSE slots
            /\ IF Client = "P3" /\ done + 1 = NT
                 THEN /\ si' = [si EXCEPT ![w] = 1]
                      /\ Go(w, IF Locked THEN "stopL" ELSE "stop")
                 ELSE /\ si' = si /\ Go(w, "t_unlockm")
            /\ UNCHANGED <<q, stopped, sh, waiting, tmp, started, ended, m, waiting2>>
TUnlockM(w) == /\ pc[w] = "t_unlockm" /\ m = w /\ m' = 0
               /\ Go(w, IF IsP2 THEN "t_notify2" ELSE "t_end")
               /\ UNCHANGED <<q, stopped, sh, waiting, tmp, si, started, ended, waiting2, done, slots>>
TNotify2(w) == /\ pc[w] = "t_notify2" /\ waiting2' = FALSE
               /\ Go(w, "t_end")
               /\ UNCHANGED <<q, stopped, sh, waiting, tmp, si, started, ended, m, done, slots>>

-----------------------------------------------------------------------------
(* WorkerPool::stop_all_workers(), executed by thread t (client, or a        *)
(* worker inside a task in P3)                                               *)

AfterStop(t) == IF t = PID THEN "join" ELSE "t_unlockm"

StopL(t) == /\ pc[t] = "stopL" /\ sh = 0 /\ sh' = t
            /\ Go(t, "stop")
            /\ UNCHANGED <<q, stopped, waiting, tmp, si, started, ended, m, waiting2, done, slots>>
\* for (auto &w : workers) w->stop();     one iteration (the loop exit is part of the last one)
Stop(t)  == /\ pc[t] = "stop" /\ si[t] <= NW
            /\ Locked => sh = t
            /\ stopped' = [stopped EXCEPT ![si[t]] = TRUE]
            /\ si' = [si EXCEPT ![t] = @ + 1]
            /\ IF si[t] = NW THEN Go(t, IF Locked THEN "stopU" ELSE "stopN") ELSE pc' = pc
            /\ UNCHANGED <<q, sh, waiting, tmp, started, ended, m, waiting2, done, slots>>
StopU(t) == /\ pc[t] = "stopU" /\ sh = t /\ sh' = 0
            /\ Go(t, "stopN")
            /\ UNCHANGED <<q, stopped, waiting, tmp, si, started, ended, m, waiting2, done, slots>>
StopN(t) == /\ pc[t] = "stopN" /\ waiting' = {}
            /\ si' = [si EXCEPT ![t] = 1]
            /\ Go(t, AfterStop(t))
            /\ UNCHANGED <<q, stopped, sh, tmp, started, ended, m, waiting2, done, slots>>

-----------------------------------------------------------------------------
(* The client thread                                                         *)

\* loop head of the producer: next task or finished adding
CNext == /\ pc[PID] = "c_next"
         /\ IF si[PID] <= NT
              THEN Go(PID, IF IsP2 THEN "c_lockm" ELSE IF Locked THEN "addL" ELSE "add")
              ELSE Go(PID, CASE Client = "P1" -> IF Locked THEN "stopL" ELSE "stop"
                             [] IsP2 -> "c_lockm2"
                             [] Client = "P3" -> "join")
         /\ si' = [si EXCEPT ![PID] = IF si[PID] <= NT THEN @ ELSE 1]
         /\ UNCHANGED <<q, stopped, sh, waiting, tmp, started, ended, m, waiting2, done, slots>>
\* P2: { lock_guard lg(m); next_part_index = parts.size(); parts.push_back(nullptr); }
CLockM   == /\ pc[PID] = "c_lockm" /\ m = 0 /\ m' = PID /\ Go(PID, "c_unlockm")
            /\ UNCHANGED <<q, stopped, sh, waiting, tmp, si, started, ended, waiting2, done, slots>>
CUnlockM == /\ pc[PID] = "c_unlockm" /\ m = PID /\ m' = 0 /\ Go(PID, IF Locked THEN "addL" ELSE "add")
            /\ UNCHANGED <<q, stopped, sh, waiting, tmp, si, started, ended, waiting2, done, slots>>
\* WorkerPool::add_task
AddL == /\ pc[PID] = "addL" /\ sh = 0 /\ sh' = PID /\ Go(PID, "add")
        /\ UNCHANGED <<q, stopped, waiting, tmp, si, started, ended, m, waiting2, done, slots>>
Add  == /\ pc[PID] = "add" /\ (Locked => sh = PID)
        /\ q' = Append(q, si[PID])
        /\ Go(PID, IF Locked THEN "addU" ELSE "addN")
        /\ UNCHANGED <<stopped, sh, waiting, tmp, si, started, ended, m, waiting2, done, slots>>
AddU == /\ pc[PID] = "addU" /\ sh = PID /\ sh' = 0 /\ Go(PID, "addN")
        /\ UNCHANGED <<q, stopped, waiting, tmp, si, started, ended, m, waiting2, done, slots>>
AddN == /\ pc[PID] = "addN" /\ waiting' = {}
        /\ si' = [si EXCEPT ![PID] = @ + 1] /\ Go(PID, "c_next")
        /\ UNCHANGED <<q, stopped, sh, tmp, started, ended, m, waiting2, done, slots>>
\* P2: unique_lock ul(m); cv.wait(ul, parts_done == parts.size());
\* (the predicate reads parts_done under m: it is evaluated atomically with the acquisition of m)
AfterPred == IF done = NT THEN (IF Locked THEN "stopL" ELSE "stop") ELSE "c_wait"
CLockM2 == /\ pc[PID] = "c_lockm2" /\ m = 0 /\ m' = PID /\ Go(PID, AfterPred)
           /\ UNCHANGED <<q, stopped, sh, waiting, tmp, si, started, ended, waiting2, done, slots>>
CWait   == /\ pc[PID] = "c_wait" /\ m = PID /\ m' = 0 /\ waiting2' = TRUE /\ Go(PID, "c_blocked")
           /\ UNCHANGED <<q, stopped, sh, waiting, tmp, si, started, ended, done, slots>>
CWake   == /\ pc[PID] = "c_blocked" /\ ~waiting2 /\ m = 0 /\ m' = PID /\ Go(PID, AfterPred)
           /\ UNCHANGED <<q, stopped, sh, waiting, tmp, si, started, ended, waiting2, done, slots>>
\* wait_workers(): join one worker (the client keeps holding m in P2: the unique_lock is
\* released only when the constructor returns)
Join    == /\ pc[PID] = "join" /\ si[PID] <= NW /\ pc[si[PID]] = "done"
           /\ si' = [si EXCEPT ![PID] = @ + 1]
           /\ UNCHANGED <<q, stopped, sh, waiting, pc, tmp, started, ended, m, waiting2, done, slots>>
JoinEnd == /\ pc[PID] = "join" /\ si[PID] > NW /\ Go(PID, "fin")
           /\ UNCHANGED <<q, stopped, sh, waiting, tmp, si, started, ended, m, waiting2, done, slots>>

-----------------------------------------------------------------------------
WorkerStep(w) ==
  \/ Head1(w) \/ Head2(w) \/ Lock(w) \/ Pred1(w) \/ Pred2(w) \/ Wait(w) \/ Wake(w)
  \/ Chk1(w) \/ Chk2(w) \/ BrkUnlock(w) \/ Chk3(w) \/ ContUnlock(w) \/ Pop(w) \/ Unlock(w)
  \/ Notify(w) \/ RunBegin(w) \/ RunEnd(w) \/ ExitN(w)
  \/ TLockM(w) \/ TCrit(w) \/ TUnlockM(w) \/ TNotify2(w)
  \/ StopL(w) \/ Stop(w) \/ StopU(w) \/ StopN(w)

ClientStep ==
  \/ CNext \/ CLockM \/ CUnlockM \/ AddL \/ Add \/ AddU \/ AddN
  \/ CLockM2 \/ CWait \/ CWake
  \/ StopL(PID) \/ Stop(PID) \/ StopU(PID) \/ StopN(PID)
  \/ Join \/ JoinEnd

Finished == pc[PID] = "fin"
Next == (\E w \in W : WorkerStep(w)) \/ ClientStep \/ (Finished /\ UNCHANGED vars)

Spec     == Init /\ [][Next]_vars
FairSpec == Spec /\ WF_vars(ClientStep) /\ \A w \in W : WF_vars(WorkerStep(w))

-----------------------------------------------------------------------------
(* Properties                                                                *)

\* every task body is entered at most once, and never while it is already running
AtMostOnce        == \A t \in Task : started[t] <= 1
NoSelfConcurrency == \A t \in Task : started[t] - ended[t] \in {0, 1}
\* when wait_workers has returned every task has run exactly once and every worker exited
ExactlyOnceAtEnd  == Finished => /\ \A t \in Task : started[t] = 1 /\ ended[t] = 1
                                 /\ \A w \in W : pc[w] = "done"
                                 /\ q = <<>>
\* queue.pop() is never reached with an empty queue (it would be undefined behaviour)
PopSafe           == \A w \in W : pc[w] = "pop" => q # <<>>
\* lock discipline: the queue is popped only by the holder of shared_mutex; with the Locked
\* protocol every change of q / stopped is made by the holder of shared_mutex
LockDiscipline    == /\ \A w \in W : pc[w] \in {"pred1","pred2","wait","chk1","chk2","chk3","pop","unlock","brk_unlock","cont_unlock"} => sh = w
                     /\ \A t \in Thr : pc[t] \in {"stopU", "addU"} => sh = t
\* P2: slot i is only ever filled with the result of block i; at return all slots are filled
SlotOrder         == \A t \in Task : slots[t] \in {0, t}
Complete          == (IsP2 /\ pc[PID] \in {"stopL", "stop", "stopU", "stopN", "join", "fin"})
                        => (done = NT /\ \A t \in Task : slots[t] = t)
\* no deadlock other than termination is checked by TLC's deadlock check (Finished stutters)

Termination        == <>Finished
\* a queued task is eventually run even if stop is never reached (P2 depends on it)
EveryTaskRuns      == \A t \in Task : <>(ended[t] = 1)

\* used to make TLC print complete behaviours (simulation mode, -continue)
NotFinished == ~Finished

Safety == TypeOK /\ AtMostOnce /\ NoSelfConcurrency /\ ExactlyOnceAtEnd /\ PopSafe /\ LockDiscipline /\ SlotOrder /\ Complete
=============================================================================
