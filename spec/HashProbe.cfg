SPECIFICATION Spec
CONSTANTS TSizes = {1, 2, 3, 5, 7}
MaxKeys = 2
INVARIANT PrimeSizesCorrect
CHECK_DEADLOCK FALSE
