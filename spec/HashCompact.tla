----------------------------- MODULE HashCompact -----------------------------
(***************************************************************************)
(* The three representations of the hash tables of HASHHF / HASHRPF        *)
(* (Hash/Hashdh, HashBdh, HashBBdh; load option 1, 2, 3) and the image     *)
(* they are loaded from and saved to.                                      *)
(*                                                                         *)
(*  plain  (Hashdh)   one entry per cell: the offset of the string stored  *)
(*                    in the cell, plus the occupancy bitmap;              *)
(*  Bdh    (option 2) the occupancy bitmap and the offsets of the occupied *)
(*                    cells only, in cell order (entry rank1(cell) - 1);   *)
(*  BBdh   (option 3) the occupancy bitmap and a second bitmap with a one  *)
(*                    at every offset: the k-th occupied cell holds the    *)
(*                    k-th one (this needs the offsets to grow with the    *)
(*                    cell index, which the constructors guarantee by      *)
(*                    laying the strings out in cell order).               *)
(*                                                                         *)
(* The image always holds the plain representation.  TLC checks, for every *)
(* table of up to MaxCells cells whose offsets grow with the cell index:   *)
(* the three representations answer getValuePos (offset of a cell) and     *)
(* getValue (offset of the i-th stored key) alike, and saving any of them  *)
(* writes the image it was loaded from (SaveLoad) - the statement behind   *)
(* C06 / C08 for the load options.  CONSTANT Fixed = FALSE is the code     *)
(* before commit 66c685a: Bdh saved its compacted array under a header     *)
(* announcing one entry per cell (SaveLoad fails for any table with an     *)
(* empty cell before an occupied one), BBdh saved a deleted array.         *)
(***************************************************************************)
EXTENDS Naturals, Sequences, FiniteSets

CONSTANTS MaxCells, MaxOff, Fixed

NoCell == MaxOff + 1          \* marks an empty cell in the model of the plain table (the image stores 0 there)

\* a table: sequence over 0..MaxOff \cup {NoCell}, offsets strictly increasing over the occupied cells
Occupied(t) == {c \in 1..Len(t) : t[c] # NoCell}
Monotone(t) == \A a, b \in Occupied(t) : a < b => t[a] < t[b]
Tables == UNION {{t \in [1..k -> 0..(MaxOff + 1)] : Monotone(t) /\ Occupied(t) # {}} : k \in 1..MaxCells}

\* the image: what Hash::save writes (entries of empty cells are written as 0) and the bitmap
Image(t) == [entries |-> [c \in 1..Len(t) |-> IF t[c] = NoCell THEN 0 ELSE t[c]],
             bitmap |-> [c \in 1..Len(t) |-> IF t[c] = NoCell THEN 0 ELSE 1]]

Rank1(bm, c) == Cardinality({d \in 1..c : bm[d] = 1})
Select1(bm, k) == CHOOSE c \in 1..Len(bm) : bm[c] = 1 /\ Rank1(bm, c) = k
Ones(bm) == Rank1(bm, Len(bm))

\* ---- load
LoadPlain(img) == [rep |-> "plain", bitmap |-> img.bitmap, entries |-> img.entries]
LoadBdh(img) == [rep |-> "Bdh", bitmap |-> img.bitmap,
                 entries |-> [k \in 1..Ones(img.bitmap) |-> img.entries[Select1(img.bitmap, k)]]]
LoadBBdh(img) == [rep |-> "BBdh", bitmap |-> img.bitmap,
                  offs |-> {img.entries[c] : c \in {d \in 1..Len(img.bitmap) : img.bitmap[d] = 1}}]
KthSmallest(Sx, k) == CHOOSE v \in Sx : Cardinality({w \in Sx : w <= v}) = k

\* ---- queries (cells are 1-based here, 0-based in the code)
ValuePos(h, c) == CASE h.rep = "plain" -> h.entries[c]
                    [] h.rep = "Bdh"   -> h.entries[Rank1(h.bitmap, c)]
                    [] h.rep = "BBdh"  -> KthSmallest(h.offs, Rank1(h.bitmap, c))
Value(h, i) == CASE h.rep = "plain" -> h.entries[Select1(h.bitmap, i)]
                 [] h.rep = "Bdh"   -> h.entries[i]
                 [] h.rep = "BBdh"  -> KthSmallest(h.offs, i)

\* ---- save
Expand(h) == [c \in 1..Len(h.bitmap) |-> IF h.bitmap[c] = 1 THEN ValuePos(h, c) ELSE 0]
Save(h) == CASE h.rep = "plain" -> [entries |-> h.entries, bitmap |-> h.bitmap]
             [] h.rep = "Bdh"   -> [entries |-> IF Fixed THEN Expand(h) ELSE h.entries, bitmap |-> h.bitmap]
             [] h.rep = "BBdh"  -> [entries |-> IF Fixed THEN Expand(h) ELSE <<>>, bitmap |-> h.bitmap]

VARIABLE t
Init == t \in Tables
Next == UNCHANGED t
Spec == Init /\ [][Next]_t

Loads(img) == {LoadPlain(img), LoadBdh(img), LoadBBdh(img)}
SameAnswers == \A h \in Loads(Image(t)) :
                 /\ \A c \in Occupied(t) : ValuePos(h, c) = t[c]
                 /\ \A i \in 1..Cardinality(Occupied(t)) : Value(h, i) = t[Select1(Image(t).bitmap, i)]
SaveLoad == \A h \in Loads(Image(t)) : Save(h) = Image(t)
Inv == SameAnswers /\ SaveLoad
=============================================================================
