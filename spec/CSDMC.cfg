SPECIFICATION Spec
CONSTANTS Strs <- MCStrs
          KindPars <- MCKindPars
          Handles = {1, 2}
          ItHandles = {1}
          MaxImgs = 1
INVARIANT Inv
PROPERTY Immutable
PROPERTY ImagesAppendOnly
PROPERTY IterShrinks
PROPERTY DeadStaysDead
VIEW View
CONSTRAINT Bound
CHECK_DEADLOCK FALSE
