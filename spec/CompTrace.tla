----------------------------- MODULE CompTrace -----------------------------
(***************************************************************************)
(* Trace validation of the component drivers (C17-C20).  One event per     *)
(* component call with its inputs and outputs; TLC evaluates the           *)
(* definitions of IntCodecs, Codes, Succinct and RePairSpec.  Monitor      *)
(* mode: every event is consumed, each non-conforming one is reported as a *)
(* BAD line blamed on its property.                                        *)
(***************************************************************************)
EXTENDS Integers, Sequences, FiniteSets, TLC, Json, IOUtils

IC == INSTANCE IntCodecs
CD == INSTANCE Codes
CK == INSTANCE ChunkDecode
SU == INSTANCE Succinct
RP == INSTANCE RePairSpec
PR == INSTANCE Primes

TraceLog == ndJsonDeserialize(IOEnv.TRACE)

VARIABLES l, sec, ls, dac, codes, bs, sq, rp, nbad
tvars == <<l, sec, ls, dac, codes, bs, sq, rp, nbad>>

\* the drivers finish with one component instance before they build the next: only the latest one is kept
Upd(f, k, v) == (k :> v)
C(p, w) == [p |-> p, w |-> w]

Report(ev, Cs) ==
  /\ nbad' = nbad + Len(Cs)
  /\ \A i \in 1..Len(Cs) :
       PrintT(<<"BAD", ToJson([l |-> l, sec |-> sec, p |-> Cs[i].p, why |-> Cs[i].w, ev |-> ev.e,
                               id |-> IF "id" \in DOMAIN ev THEN ev.id ELSE -1])>>)

Keep(vs) == UNCHANGED vs

\* ---- C17
TVB(ev) ==
  LET want == IC!VBEncode(ev.v)
      Cs == (IF ev.bytes = want /\ ev.enc = Len(want) THEN <<>> ELSE <<C("C17", "VByte: encoded bytes differ from the 7-bit group encoding")>>)
            \o (IF IC!SameValue(ev.dv, ev.v) THEN <<>> ELSE <<C("C17", "VByte: decode(encode(v)) # v")>>)
            \o (IF ev.dec = ev.enc THEN <<>> ELSE <<C("C17", "VByte: encode and decode report different byte counts")>>)
  IN  Report(ev, Cs) /\ Keep(<<ls, dac, codes, bs, sq, rp>>)

Zero4 == <<0, 0, 0, 0>>
TLSNew(ev) == /\ ls' = Upd(ls, ev.id, [w |-> ev.w, n |-> ev.n, vals |-> [i \in 1..ev.n |-> Zero4]])
              /\ Report(ev, <<>>) /\ Keep(<<dac, codes, bs, sq, rp>>)
TLSSet(ev) == /\ ls' = [ls EXCEPT ![ev.id].vals[ev.i + 1] = ev.v]
              /\ Report(ev, <<>>) /\ Keep(<<dac, codes, bs, sq, rp>>)
TLSGet(ev) == /\ Report(ev, IF IC!SameValue(ev.v, ls[ev.id].vals[ev.i + 1]) THEN <<>>
                            ELSE <<C("C17", "LogSequence: field does not hold the value last stored (or a neighbour was disturbed)")>>)
              /\ Keep(<<ls, dac, codes, bs, sq, rp>>)
TLSReload(ev) == /\ Report(ev, IF ev.w = ls[ev.id].w /\ ev.n = ls[ev.id].n THEN <<>> ELSE <<C("C17", "LogSequence: width/length changed by save/load")>>)
                 /\ Keep(<<ls, dac, codes, bs, sq, rp>>)

TDACBuild(ev) == /\ dac' = Upd(dac, ev.id, ev.lists) /\ Report(ev, <<>>) /\ Keep(<<ls, codes, bs, sq, rp>>)
TDACAccess(ev) ==
  LET want == dac[ev.id][ev.i] IN
  /\ Report(ev, IF ev.len = Len(want) /\ ev.seq = want THEN <<>>
                ELSE <<C("C17", "DAC_VLS: access(i) is not the i-th stored sequence (" \o ev.when \o ")")>>)
  /\ Keep(<<ls, dac, codes, bs, sq, rp>>)

\* ---- C18
TCode(ev) ==
  LET T == ev.table
      Cs == (IF CD!PrefixFree(T) THEN <<>> ELSE <<C("C18", ev.kind \o ": code table is not prefix-free")>>)
            \o (IF CD!Complete(T) THEN <<>> ELSE <<C("C18", ev.kind \o ": code table is not complete")>>)
            \o (IF ev.kind = "hutucker" /\ ~CD!Alphabetic(T) THEN <<C("C18", "hutucker: codewords are not in symbol order")>> ELSE <<>>)
  IN  /\ codes' = Upd(codes, ev.id, T) /\ Report(ev, Cs) /\ Keep(<<ls, dac, bs, sq, rp>>)
TEnc(ev) ==
  LET T == codes[ev.id]
      bits == CD!Concat(T, ev.s)
      Cs == (IF ev.bytes = CD!Pack(bits) /\ ev.off = Len(bits) % 8 THEN <<>> ELSE <<C("C18", "encodeString: bytes are not the packed concatenation of the codewords")>>)
            \o (IF CD!Decode(T, bits, <<>>) = ev.s THEN <<>> ELSE <<C("C18", "prefix decoding of the encoded bits does not give the string back")>>)
  IN  Report(ev, Cs) /\ Keep(<<ls, dac, codes, bs, sq, rp>>)

\* the chunked decoding table, driven as the dictionaries drive it: what processChunk delivers for the encoded string
\* must be the string itself (terminator included) and the decoder must have seen its end; the specification's own
\* prefix decoding of the concatenated codewords gives the same string (so the table in the event is the one used)
TTDec(ev) ==
  LET T == codes[ev.id]
      Cs == (IF ev.ended = 1 /\ ev.out = ev.s THEN <<>> ELSE <<C("C18", "table decoding does not give the encoded string back")>>)
            \o (IF CD!Decode(T, CD!Concat(T, ev.s), <<>>) = ev.s THEN <<>> ELSE <<C("C18", "prefix decoding of the encoded bits does not give the string back")>>)
            \* the chunk-table algorithm of ChunkDecode.tla with the real chunk width, on the real table and string
            \o (IF CK!TableDecode(T, 16, CD!Concat(T, ev.s)) = ev.s THEN <<>> ELSE <<C("C18", "ChunkDecode.tla (K = 16) does not give the string back on this table")>>)
  IN  Report(ev, Cs) /\ Keep(<<ls, dac, codes, bs, sq, rp>>)
TTDecSum(ev) ==
  Report(ev, IF ev.wrong = 0 THEN <<>> ELSE <<C("C18", "table decoding does not give the encoded string back (summary of a large corpus)")>>)
  /\ Keep(<<ls, dac, codes, bs, sq, rp>>)

\* ---- C19   (FastRanks / FastPos equal the plain definitions of Succinct.tla: checked in CompMC "succinct")
FastPos(B, v) == SelectSeq([i \in 1..Len(B) |-> i], LAMBDA i : B[i] = v)
FastRanks(B, v) == [i \in 1..Len(B) |-> Cardinality({k \in 1..i : B[k] = v})]
TBSBuild(ev) == /\ bs' = Upd(bs, ev.id, ev.bits) /\ Report(ev, <<>>) /\ Keep(<<ls, dac, codes, sq, rp>>)
TBSQ(ev) ==
  LET B == bs[ev.id]  n == Len(B)  p1 == FastPos(B, 1)  p0 == FastPos(B, 0)  ones == Len(p1)  w == " (" \o ev.when \o ")"
      Cs == (IF ev.len = n /\ ev.ones = ones THEN <<>> ELSE <<C("C19", "bit sequence: length / number of ones wrong" \o w)>>)
            \o (IF ev.access = B THEN <<>> ELSE <<C("C19", "bit sequence: access differs from the plain bit vector" \o w)>>)
            \o (IF ev.rank1 = FastRanks(B, 1) THEN <<>> ELSE <<C("C19", "bit sequence: rank1 differs from its definition" \o w)>>)
            \o (IF ev.rank0 = FastRanks(B, 0) THEN <<>> ELSE <<C("C19", "bit sequence: rank0 differs from its definition" \o w)>>)
            \o (IF ev.select1 = [j \in 1..ones |-> p1[j] - 1] THEN <<>> ELSE <<C("C19", "bit sequence: select1 differs from its definition" \o w)>>)
            \o (IF ev.select0 = [j \in 1..(n - ones) |-> p0[j] - 1] THEN <<>> ELSE <<C("C19", "bit sequence: select0 differs from its definition" \o w)>>)
  IN  Report(ev, Cs) /\ Keep(<<ls, dac, codes, bs, sq, rp>>)
TSeqBuild(ev) == /\ sq' = Upd(sq, ev.id, ev.syms) /\ Report(ev, <<>>) /\ Keep(<<ls, dac, codes, bs, rp>>)
TSeqQ(ev) ==
  LET Q == sq[ev.id]  w == " (" \o ev.when \o ")"
      Cs == (IF ev.access = Q THEN <<>> ELSE <<C("C19", "sequence: access differs from the plain sequence" \o w)>>)
            \o (IF \A k \in 1..Len(ev.rank) : ev.rank[k][3] = Cardinality({q \in 1..(ev.rank[k][2] + 1) : Q[q] = ev.rank[k][1]}) THEN <<>>
                ELSE <<C("C19", "sequence: rank(c,i) differs from its definition" \o w)>>)
            \o (IF \A k \in 1..Len(ev.select) : ev.select[k][3] = FastPos(Q, ev.select[k][1])[ev.select[k][2]] - 1 THEN <<>>
                ELSE <<C("C19", "sequence: select(c,j) differs from its definition" \o w)>>)
  IN  Report(ev, Cs) /\ Keep(<<ls, dac, codes, bs, sq, rp>>)

\* ---- C20
TRPIn(ev) == /\ rp' = Upd(rp, ev.id, [seq |-> ev.seq]) /\ Report(ev, <<>>) /\ Keep(<<ls, dac, codes, bs, sq>>)
TRPOut(ev) ==
  LET in == rp[ev.id].seq
      wf == Len(ev.rules) = ev.nrules /\ RP!WellFounded(ev.rules, ev.terminals)
      Cs == (IF wf THEN <<>> ELSE <<C("C20", "Re-Pair: a rule refers to itself or to a later rule")>>)
            \o (IF wf /\ ~RP!Lossless(in, ev.rules, ev.terminals, ev.array) THEN <<C("C20", "Re-Pair: expanding grammar and compacted sequence does not reproduce the input")>> ELSE <<>>)
            \o (IF RP!NoTerminatorInRules(ev.rules) THEN <<>> ELSE <<C("C20", "Re-Pair: a rule contains the terminator symbol 0")>>)
            \o (IF RP!BitsSuffice(ev.bits, ev.terminals, ev.nrules) THEN <<>> ELSE <<C("C20", "Re-Pair: reported bits do not suffice for every terminal and rule id")>>)
  IN  /\ rp' = Upd(rp, ev.id, [seq |-> in, rules |-> ev.rules, terminals |-> ev.terminals])
      /\ Report(ev, Cs) /\ Keep(<<ls, dac, codes, bs, sq>>)
TRPReload(ev) ==
  LET o == rp[ev.id] IN
  /\ Report(ev, IF "rules" \in DOMAIN o /\ ev.rules = o.rules /\ ev.terminals = o.terminals THEN <<>>
                ELSE <<C("C20", "Re-Pair: grammar changed by save/load")>>)
  /\ Keep(<<ls, dac, codes, bs, sq, rp>>)

\* ---- hash table size (C01/C02/C12 of the hash kinds rest on it, see HashProbe.tla)
TNP(ev) == /\ Report(ev, IF ev.r = PR!NearestPrime(ev.n) /\ PR!NearestPrimeOK(ev.n) THEN <<>>
                         ELSE <<C("C01", "nearest_prime(n) is not the next prime (hash table size)")>>)
           /\ Keep(<<ls, dac, codes, bs, sq, rp>>)

SecProp(s) == IF SubSeq(s, 1, 3) = "has" THEN "C01"
              ELSE IF SubSeq(s, 1, 3) \in {"vby", "log", "dac"} THEN "C17"
              ELSE IF SubSeq(s, 1, 3) \in {"cod", "tab"} THEN "C18"
              ELSE IF SubSeq(s, 1, 3) \in {"bit", "wt-"} THEN "C19" ELSE "C20"
TFault(ev) == /\ Report(ev, <<C(SecProp(ev.sec), "component call crashed or did not terminate (section " \o ev.sec \o ")")>>)
              /\ Keep(<<ls, dac, codes, bs, sq, rp>>)

TInit == /\ l = 1 /\ sec = "" /\ ls = <<>> /\ dac = <<>> /\ codes = <<>> /\ bs = <<>> /\ sq = <<>> /\ rp = <<>> /\ nbad = 0

Known(ev) == CASE ev.e \in {"LSSet", "LSGet", "LSReload"} -> ev.id \in DOMAIN ls
               [] ev.e = "DACAccess" -> ev.id \in DOMAIN dac
               [] ev.e \in {"Enc", "TDec", "TDecSum"} -> ev.id \in DOMAIN codes
               [] ev.e = "BSQ" -> ev.id \in DOMAIN bs
               [] ev.e = "SeqQ" -> ev.id \in DOMAIN sq
               [] ev.e \in {"RPOut", "RPReload"} -> ev.id \in DOMAIN rp
               [] OTHER -> TRUE

TNext ==
  /\ l <= Len(TraceLog) /\ l' = l + 1
  /\ LET ev == TraceLog[l] e == ev.e IN
     IF e = "Reset" THEN
       /\ sec' = ev.sec /\ ls' = <<>> /\ dac' = <<>> /\ codes' = <<>> /\ bs' = <<>> /\ sq' = <<>> /\ rp' = <<>> /\ nbad' = nbad
     ELSE
       /\ sec' = sec
       /\ IF ~Known(ev) THEN nbad' = nbad /\ Keep(<<ls, dac, codes, bs, sq, rp>>)
          ELSE CASE e = "VB" -> TVB(ev)
            [] e = "LSNew" -> TLSNew(ev) [] e = "LSSet" -> TLSSet(ev) [] e = "LSGet" -> TLSGet(ev) [] e = "LSReload" -> TLSReload(ev)
            [] e = "DACBuild" -> TDACBuild(ev) [] e = "DACAccess" -> TDACAccess(ev)
            [] e = "Code" -> TCode(ev) [] e = "Enc" -> TEnc(ev) [] e = "TDec" -> TTDec(ev) [] e = "TDecSum" -> TTDecSum(ev)
            [] e = "BSBuild" -> TBSBuild(ev) [] e = "BSQ" -> TBSQ(ev)
            [] e = "SeqBuild" -> TSeqBuild(ev) [] e = "SeqQ" -> TSeqQ(ev)
            [] e \in {"BSLoadNull", "SeqLoadNull"} -> Report(ev, <<C("C19", "load returned NULL for a saved structure")>>) /\ Keep(<<ls, dac, codes, bs, sq, rp>>)
            [] e = "RPIn" -> TRPIn(ev) [] e = "RPOut" -> TRPOut(ev) [] e = "RPReload" -> TRPReload(ev)
            [] e = "NP" -> TNP(ev)
            [] e \in {"crash", "timeout"} -> TFault(ev)
            [] OTHER -> nbad' = nbad /\ Keep(<<ls, dac, codes, bs, sq, rp>>)

TSpec == TInit /\ [][TNext]_tvars
Consumed == TLCGet("stats").diameter >= Len(TraceLog) + 1
=============================================================================
