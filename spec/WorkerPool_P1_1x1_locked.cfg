SPECIFICATION FairSpec
CONSTANTS NW = 1
          NT = 1
          Client = "P1"
          Locked = TRUE
INVARIANT Safety
PROPERTY Termination
