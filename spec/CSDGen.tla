------------------------------- MODULE CSDGen -------------------------------
(***************************************************************************)
(* Behaviour generator: the API state machine of CSD.tla with a history    *)
(* variable.  `tlc -simulate` walks the specification at random; when a    *)
(* walk reaches the depth bound its history is printed as JSON and turned  *)
(* into a driver program (lib/checks/csd.py), which is executed on the     *)
(* real library and validated by CSDTrace.  Because the walk is a          *)
(* behaviour of the specification, every generated program is well formed: *)
(* next() is only called on an iterator the specification knows is not     *)
(* exhausted, dictionaries are destroyed only after their iterators were   *)
(* closed, loads only name images that exist.                              *)
(***************************************************************************)
EXTENDS CSD, Json

CONSTANT Depth
VARIABLE hist
gvars == <<objs, imgs, iters, resp, hist>>

P0 == [bucket |-> 2, overhead |-> 25, sparse |-> 0, bparam |-> 4, bwt |-> 0, cut |-> 4, threads |-> 2]
GStrs == {<<97>>, <<98>>, <<97, 97>>, <<97, 98>>, <<98, 97>>, <<97, 98, 97>>, <<254>>, <<97, 254>>}
GKindPars == {<<"PFC", P0>>, <<"PFC", [P0 EXCEPT !.bucket = 3]>>, <<"RPFC", P0>>, <<"RPDAC", P0>>, <<"HASHRPF", P0>>,
              <<"HASHRPDAC", P0>>, <<"BLOCKS", P0>>, <<"FMINDEX", [P0 EXCEPT !.bwt = 2]>>, <<"FMINDEX", P0>>,
              <<"HTFC", P0>>, <<"HASHHF", P0>>, <<"HASHUFFDAC", P0>>, <<"HASHRPF", [P0 EXCEPT !.overhead = 0]>>,
              <<"FMINDEX", [P0 EXCEPT !.sparse = 1, !.bparam = 16, !.bwt = 2]>>}

H(r) == hist' = Append(hist, r)

GInit == Init /\ hist = <<>>
GNext ==
  \/ \E h \in Handles, kp \in KindPars, T \in SUBSET Strs :
       /\ Cardinality(T) \in 1..4 /\ Build(h, kp, T, SortSet(T))      \* (the table is irrelevant for generation)
       /\ H([op |-> "B", h |-> h, kind |-> kp[1], par |-> kp[2], S |-> SortSet(T)])
  \/ \E h \in Handles : \/ NumElements(h) /\ H([op |-> "N", h |-> h])
                        \/ MaxLength(h) /\ H([op |-> "M", h |-> h])
                        \/ Save(h) /\ H([op |-> "S", h |-> h, img |-> Len(imgs) + 1])
                        \/ Destroy(h) /\ H([op |-> "D", h |-> h])
  \/ \E h \in Handles, q \in Strs : Locate(h, q) /\ H([op |-> "L", h |-> h, q |-> q])
  \/ \E h \in Handles, i \in 0..5 : \/ Extract(h, i) /\ H([op |-> "E", h |-> h, i |-> i])
                                    \/ i >= 1 /\ Live(h) /\ i <= N(objs[h]) /\ LocateRank(h, i) /\ H([op |-> "LR", h |-> h, i |-> i])
                                    \/ i >= 1 /\ Live(h) /\ i <= N(objs[h]) /\ ExtractRank(h, i) /\ H([op |-> "ER", h |-> h, i |-> i])
  \/ \E h \in Handles, it \in ItHandles, p \in Strs :
        \/ LocatePrefix(h, it, p) /\ H([op |-> "LP", h |-> h, it |-> it, q |-> p])
        \/ ExtractPrefix(h, it, p) /\ H([op |-> "EP", h |-> h, it |-> it, q |-> p])
        \/ LocateSubstr(h, it, p) /\ H([op |-> "LS", h |-> h, it |-> it, q |-> p])
        \/ ExtractSubstr(h, it, p) /\ H([op |-> "ES", h |-> h, it |-> it, q |-> p])
  \/ \E h \in Handles, it \in ItHandles : ExtractTable(h, it) /\ H([op |-> "ET", h |-> h, it |-> it])
  \/ \E it \in ItHandles : \/ HasNext(it) /\ H([op |-> "HN", it |-> it, type |-> iters[it].type])
                           \/ Next1(it) /\ H([op |-> "NX", it |-> it, type |-> iters[it].type])
                           \/ Close(it) /\ H([op |-> "CI", it |-> it])
  \/ \E h \in Handles, i \in 1..MaxImgs, opt \in 1..3 :
        \/ LoadGeneric(h, i, opt) /\ H([op |-> "LG", h |-> h, img |-> i, opt |-> opt])
        \/ \E k \in {kp[1] : kp \in KindPars} : LoadKind(k, h, i, opt) /\ H([op |-> "LK", kind |-> k, h |-> h, img |-> i, opt |-> opt])

GSpec == GInit /\ [][GNext]_gvars
\* emit the history when the walk reaches the bound (and stop it there)
Emit == Len(hist) < Depth \/ PrintT(<<"HIST", ToJson(hist)>>)
Stop == Len(hist) <= Depth
=============================================================================
