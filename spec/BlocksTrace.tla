---------------------------- MODULE BlocksTrace ----------------------------
(***************************************************************************)
(* Outcome validation of executions of the real block constructor (C09):   *)
(*  - the parts, starting indexes and cut samples reported by the built    *)
(*    object are exactly BlocksCut!Starts applied to the logged input and  *)
(*    cut size (blocks in input order, a function of the input alone);     *)
(*  - every slot is filled when the constructor returns (complete);        *)
(*  - the saved image equals (digest and length) the image of the          *)
(*    reference execution of the same (input, overhead, cut): the first    *)
(*    execution of each group, which the runner builds with one thread;    *)
(*  - no Deadlock / Timeout / Crash event, and no `race` event (a         *)
(*    ThreadSanitizer report attached to the execution, C11).              *)
(* Monitor mode: every event is consumed, the first non-conforming event   *)
(* of an execution is recorded.                                            *)
(***************************************************************************)
EXTENDS BlocksCut, TLC, Json, IOUtils

TraceLog == ndJsonDeserialize(IOEnv.TRACE)
OutFile  == IOEnv.OUT

VARIABLES l, ok, run, cur, ref, bad, nruns, nbad, nbuilt, flushed
tv == <<l, ok, run, cur, ref, bad, nruns, nbad, nbuilt, flushed>>

NoRef == [key |-> <<>>, digest |-> "", bytes |-> 0]
Key(r) == <<r.S, r.overhead, r.cut>>

BuiltOk(ev) ==
  LET S == cur.S
      lens == [i \in 1..Len(S) |-> Len(S[i])]
      st == Starts(lens, cur.cut)
  IN  /\ ev.complete = 1
      /\ ev.n = Len(S)
      /\ ev.nparts = Len(st)
      /\ ev.starts = st
      /\ Len(ev.samples) = Len(st)
      /\ \A b \in 1..Len(st) : ev.samples[b] = S[st[b] + 1]
      /\ ev.threads = cur.threads
      /\ (ref.key = Key(cur) => (ev.digest = ref.digest /\ ev.bytes = ref.bytes))

TInit == /\ l = 1 /\ ok = TRUE /\ run = 0 /\ cur = [S |-> <<>>] /\ ref = NoRef /\ bad = <<>>
         /\ nruns = 0 /\ nbad = 0 /\ nbuilt = 0 /\ flushed = FALSE

Reject(ev, why) == /\ ok' = FALSE /\ nbad' = nbad + 1
                   /\ bad' = IF Len(bad) < 100 THEN Append(bad, [run |-> run, line |-> l, e |-> ev.e, why |-> why]) ELSE bad

TNext ==
  \/ /\ l <= Len(TraceLog) /\ l' = l + 1 /\ flushed' = flushed
     /\ LET ev == TraceLog[l] IN
        IF ev.e = "Reset" THEN
          /\ cur' = ev /\ run' = ev.run /\ ok' = TRUE /\ nruns' = nruns + 1
          /\ ref' = IF ref.key = Key(ev) THEN ref ELSE NoRef
          /\ UNCHANGED <<bad, nbad, nbuilt>>
        ELSE IF ~ok THEN UNCHANGED <<ok, run, cur, ref, bad, nruns, nbad, nbuilt>>
        ELSE IF ev.e = "Built" THEN
          /\ UNCHANGED <<run, cur, nruns>> /\ nbuilt' = nbuilt + 1
          /\ IF BuiltOk(ev)
               THEN /\ UNCHANGED <<ok, bad, nbad>>
                    /\ ref' = IF ref.key = Key(cur) THEN ref
                              ELSE [key |-> Key(cur), digest |-> ev.digest, bytes |-> ev.bytes]
               ELSE /\ Reject(ev, IF ev.complete # 1 THEN "incomplete"
                                  ELSE IF ref.key = Key(cur) /\ ev.digest # ref.digest THEN "digest"
                                  ELSE "cutrule")
                    /\ UNCHANGED ref
        ELSE IF ev.e \in {"Deadlock", "Timeout", "Crash"} THEN
          /\ Reject(ev, "no-return") /\ UNCHANGED <<run, cur, ref, nruns, nbuilt>>
        ELSE IF ev.e = "race" THEN          \* a ThreadSanitizer report of this execution (C11): never accepted
          /\ Reject(ev, "race") /\ UNCHANGED <<run, cur, ref, nruns, nbuilt>>
        ELSE UNCHANGED <<ok, run, cur, ref, bad, nruns, nbad, nbuilt>>
  \/ /\ l = Len(TraceLog) + 1 /\ ~flushed /\ flushed' = TRUE
     /\ ndJsonSerialize(OutFile, <<[runs |-> nruns, rejected |-> nbad, built |-> nbuilt, lines |-> Len(TraceLog)]>> \o bad)
     /\ UNCHANGED <<l, ok, run, cur, ref, bad, nruns, nbad, nbuilt>>

TSpec == TInit /\ [][TNext]_tv
Consumed == TLCGet("stats").diameter >= Len(TraceLog) + 1
=============================================================================
