SPECIFICATION Spec
CONSTANTS
  Sigma = {2, 3}
  MaxLen = 3
  MaxN = 2
  Emit = FALSE
  Fixed = TRUE
INVARIANT Inv
CHECK_DEADLOCK FALSE
