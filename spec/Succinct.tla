------------------------------ MODULE Succinct ------------------------------
(***************************************************************************)
(* C19: plain definitions of access / rank / select with libcds's index    *)
(* conventions: positions from 0, rank(i) counts positions 0..i inclusive, *)
(* select(j) for 1 <= j <= count returns a 0-based position.               *)
(* B and Q are TLA+ sequences (1-based): position p is element p + 1.      *)
(***************************************************************************)
EXTENDS Naturals, Sequences, FiniteSets

Rank(B, v, i)   == Cardinality({k \in 0..i : B[k + 1] = v})
Count(B, v)     == Cardinality({k \in 1..Len(B) : B[k] = v})
Select(B, v, j) == CHOOSE p \in 0..(Len(B) - 1) : B[p + 1] = v /\ Rank(B, v, p) = j
\* rank and select are mutually inverse (checked by TLC in SuccinctMC)
Inverse(B, v) == /\ \A j \in 1..Count(B, v) : Rank(B, v, Select(B, v, j)) = j
                 /\ \A p \in 0..(Len(B) - 1) : B[p + 1] = v => Select(B, v, Rank(B, v, p)) = p
=============================================================================
