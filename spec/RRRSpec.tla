------------------------------- MODULE RRRSpec -------------------------------
(***************************************************************************)
(* Mechanism model of libcds BitSequenceRRR (the bitmap FMINDEX uses with  *)
(* `sparse` bitmaps and XBW uses inside its wavelet tree), scaled down:    *)
(* blocks of BS bits (the library: 15), each stored as its class (number   *)
(* of ones) in the class sequence C and its offset (rank of the block      *)
(* among the blocks of that class, in a fixed enumeration) in the offset   *)
(* stream O, which uses Width(class) = ceil(log2(binomial(BS, class)))     *)
(* bits per block; every Rate blocks a sample keeps the number of ones     *)
(* (C_sampling) and the bit position in O (O_pos) up to there.             *)
(*                                                                         *)
(* rank1(i) as in the code: start from the sample of block i/BS/Rate, add  *)
(* the classes (and offset widths) of the blocks up to block i/BS, decode  *)
(* that block from (class, offset read at the accumulated position) and    *)
(* count the ones of its first i%BS + 1 bits.  access(i) is the bit of     *)
(* the decoded block.  TLC: for every bit vector of up to MaxN bits and    *)
(* every sampling rate in Rates (odd ones too), rank1 and access equal     *)
(* their definitions (Succinct.tla), and the offset stream is exactly as   *)
(* long as the widths say.  The packing of C into nibbles (where the       *)
(* seeded change C19_D lives) is below this model's level; the real        *)
(* structure is bound through the bitseq traces of CompTrace.              *)
(***************************************************************************)
EXTENDS Naturals, Sequences, FiniteSets
LOCAL INSTANCE Succinct

CONSTANTS BS, MaxN, Rates

\* blocks of a class in a fixed order: all BS-bit vectors with that many ones, by their value as a number
BlockVal(b) == LET RECURSIVE V(_) V(k) == IF k = 0 THEN 0 ELSE 2 * V(k - 1) + b[k] IN V(BS)
OnesOf(b) == Cardinality({k \in 1..BS : b[k] = 1})
Blocks == [1..BS -> {0, 1}]
ClassBlocks(c) == {b \in Blocks : OnesOf(b) = c}
OffsetOf(b) == Cardinality({d \in ClassBlocks(OnesOf(b)) : BlockVal(d) < BlockVal(b)})
BlockOf(c, off) == CHOOSE b \in ClassBlocks(c) : OffsetOf(b) = off
RECURSIVE Log2Ceil(_)
Log2Ceil(m) == IF m <= 1 THEN 0 ELSE 1 + Log2Ceil((m + 1) \div 2)
Width(c) == Log2Ceil(Cardinality(ClassBlocks(c)))

\* the bit vector cut into blocks (the last one padded with zeros)
NBlocks(B) == (Len(B) + BS - 1) \div BS
Block(B, j) == [k \in 1..BS |-> IF j * BS + k <= Len(B) THEN B[j * BS + k] ELSE 0]       \* j is 0-based
Classes(B) == [j \in 1..NBlocks(B) |-> OnesOf(Block(B, j - 1))]
\* offsets written one after the other, Width(class) bits each, most significant bit first
Bits(v, w) == [k \in 1..w |-> (v \div (2 ^ (w - k))) % 2]
RECURSIVE OStream(_, _)
OStream(B, j) == IF j >= NBlocks(B) THEN <<>>
                 ELSE Bits(OffsetOf(Block(B, j)), Width(OnesOf(Block(B, j)))) \o OStream(B, j + 1)
ReadBits(O, pos, w) == LET RECURSIVE R(_, _) R(k, acc) == IF k > w THEN acc ELSE R(k + 1, 2 * acc + O[pos + k]) IN R(1, 0)   \* pos is 0-based

\* samples: ones and offset-stream position before block s*Rate
RECURSIVE SumOnes(_, _, _)
SumOnes(C, a, b) == IF a >= b THEN 0 ELSE C[a + 1] + SumOnes(C, a + 1, b)                \* blocks a..b-1 (0-based)
RECURSIVE SumWidth(_, _, _)
SumWidth(C, a, b) == IF a >= b THEN 0 ELSE Width(C[a + 1]) + SumWidth(C, a + 1, b)
CSample(C, rate, s) == SumOnes(C, 0, s * rate)
OSample(C, rate, s) == SumWidth(C, 0, s * rate)

Rank1RRR(B, rate, i) ==
  LET C == Classes(B)  O == OStream(B, 0)
      pos == i \div BS
      s == pos \div rate
      sum == CSample(C, rate, s) + SumOnes(C, s * rate, pos)
      posO == OSample(C, rate, s) + SumWidth(C, s * rate, pos)
      c == C[pos + 1]
      blk == BlockOf(c, ReadBits(O, posO, Width(c)))
  IN  sum + Cardinality({k \in 1..((i % BS) + 1) : blk[k] = 1})
AccessRRR(B, rate, i) ==
  LET C == Classes(B)  O == OStream(B, 0)
      pos == i \div BS
      posO == SumWidth(C, 0, pos)
      c == C[pos + 1]
  IN  BlockOf(c, ReadBits(O, posO, Width(c)))[(i % BS) + 1]

VARIABLES B, rate
Init == B \in UNION {[1..k -> {0, 1}] : k \in 1..MaxN} /\ rate \in Rates
Next == UNCHANGED <<B, rate>>
Spec == Init /\ [][Next]_<<B, rate>>
Inv == /\ \A i \in 0..(Len(B) - 1) : Rank1RRR(B, rate, i) = Rank(B, 1, i) /\ AccessRRR(B, rate, i) = B[i + 1]
       /\ Len(OStream(B, 0)) = SumWidth(Classes(B), 0, NBlocks(B))
=============================================================================
