SPECIFICATION Spec
CONSTANTS TSizes = {2, 3, 5}
MaxKeys = 3
INVARIANT PrimeSizesCorrect
CHECK_DEADLOCK FALSE
