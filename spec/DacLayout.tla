------------------------------ MODULE DacLayout ------------------------------
(***************************************************************************)
(* Mechanism model of DAC_VLS (utils/DAC_VLS.cpp): the constructor's level  *)
(* layout and access(), transcribed.                                        *)
(*   list: symbols of each sequence followed by one negative end mark;      *)
(*   the constructor receives a length l_Length and starts a new sequence   *)
(*   at every position below it;  level j holds the (j+1)-th symbol of      *)
(*   every sequence that has one; a bitmap over the levels marks "this      *)
(*   sequence continues on the next level"; its last position is set as an  *)
(*   end mark; rankLevels[j] = ones before level j.                         *)
(*   access(pos): follow the continuation bits level by level.              *)
(* TLC checks Access(Build(lists), i) = lists[i] for ALL lists of up to     *)
(* MaxSeqs sequences of 1..MaxLen symbols.  Two constants keep the two      *)
(* repaired defects checkable:  LenSlack = 1 is the dictionaries' current   *)
(* call (ic - 1), 2 the original (ic - 2: a final one-symbol sequence is    *)
(* dropped);  BoundFirst = TRUE is the current access() (level bound tested *)
(* before the bit), FALSE the original (walks past the last level when      *)
(* every sequence has one symbol).                                          *)
(***************************************************************************)
EXTENDS Naturals, Sequences, FiniteSets, TLC

CONSTANTS MaxSeqs, MaxLen, Syms, LenSlack, BoundFirst

Lists == UNION {[1..n -> UNION {[1..k -> Syms] : k \in 1..MaxLen}] : n \in 1..MaxSeqs}

\* the int list handed to the constructor: 0 encodes an end mark (symbols are >= 1)
RECURSIVE Flat(_, _)
Flat(L, i) == IF i > Len(L) THEN <<>> ELSE L[i] \o <<0>> \o Flat(L, i + 1)

\* sequences the constructor sees: starts at every position < lLength (after skipping to the next mark)
RECURSIVE Seen(_, _, _, _)
Seen(list, lLength, i, nLevels) ==
  IF i > lLength THEN <<>>                                   \* i is 1-based: position i-1 < l_Length
  ELSE LET RECURSIVE Take(_, _)
           Take(k, j) == IF j >= nLevels \/ k > Len(list) \/ list[k] = 0 THEN <<>> ELSE <<list[k]>> \o Take(k + 1, j + 1)
           s == Take(i, 0)
       IN  <<s>> \o Seen(list, lLength, i + Len(s) + 1, nLevels)

MaxOf(S) == CHOOSE m \in S : \A x \in S : x <= m
Build(L) ==
  LET list == Flat(L, 1)
      nLevels == MaxOf({Len(L[i]) : i \in 1..Len(L)})          \* max_seq_length
      seqs == Seen(list, Len(list) - LenSlack, 1, nLevels)     \* what the loops of the constructor store
      n == Len(seqs)
      size(j) == Cardinality({i \in 1..n : Len(seqs[i]) > j})  \* levelSizeAux[j]
      RECURSIVE Idx(_)
      Idx(j) == IF j = 0 THEN 0 ELSE Idx(j - 1) + size(j - 1)   \* levelsIndex[j]
      \* position (0-based, global over all levels) of sequence i on level j: order of appearance
      posOf(i, j) == Idx(j) + Cardinality({k \in 1..(i - 1) : Len(seqs[k]) > j})
      total == Idx(nLevels)
      levels == [p \in 0..(total - 1) |->
                  LET ij == CHOOSE x \in {<<i, j>> : i \in 1..n, j \in 0..(nLevels - 1)} :
                              Len(seqs[x[1]]) > x[2] /\ posOf(x[1], x[2]) = p
                  IN  seqs[ij[1]][ij[2] + 1]]
      bsLen == Idx(nLevels - 1) + 1                              \* bits_BS_len
      ones == {p \in 0..(bsLen - 1) : (\E i \in 1..n, j \in 1..(nLevels - 1) : Len(seqs[i]) > j /\ posOf(i, j - 1) = p) \/ p = bsLen - 1}
  IN  [n |-> n, nLevels |-> nLevels, levels |-> levels, total |-> total, idx |-> [j \in 0..nLevels |-> Idx(j)],
       ones |-> ones, bsLen |-> bsLen,
       rankLevels |-> [j \in 0..(nLevels - 1) |-> IF j = 0 THEN 0 ELSE Cardinality({p \in ones : p <= Idx(j) - 1})]]

Rank1(D, p) == Cardinality({x \in D.ones : x <= p})
Lev(D, p) == IF p \in DOMAIN D.levels THEN D.levels[p] ELSE 999      \* 999: read outside the levels array
RECURSIVE Follow(_, _, _, _)
Follow(D, ini, j, acc) ==
  LET more == IF BoundFirst THEN (j < D.nLevels - 1 /\ ini \in D.ones) ELSE ini \in D.ones IN
  IF ~more THEN acc
  ELSE LET rankini == Rank1(D, ini) - (IF j \in DOMAIN D.rankLevels THEN D.rankLevels[j] ELSE 0)
           j2 == j + 1
           ini2 == (IF j2 \in DOMAIN D.idx THEN D.idx[j2] ELSE D.total) + rankini - 1
           acc2 == Append(acc, Lev(D, ini2))
       IN  IF ~BoundFirst /\ j2 = D.nLevels - 1 THEN acc2 ELSE IF Len(acc2) > D.nLevels + 1 THEN acc2 ELSE Follow(D, ini2, j2, acc2)
Access(D, pos) == Follow(D, pos - 1, 0, <<Lev(D, pos - 1)>>)

VARIABLE L
Init == L \in Lists
Next == UNCHANGED L
Spec == Init /\ [][Next]_L
AccessOK == LET D == Build(L) IN \A i \in 1..Len(L) : Access(D, i) = L[i]
=============================================================================
