--------------------------- MODULE CapacityProof ---------------------------
(***************************************************************************)
(* Unbounded companion of Capacity.tla (C07): the arithmetic core of       *)
(* WriteFits, proved by TLAPS for ALL string lengths, common-prefix        *)
(* lengths and buffer fills, not only the scaled-down ones TLC enumerates. *)
(* After the growth loop of the front-coding constructor has established   *)
(*     used + 2*len + 2 <= reserved        (the guard after commit 7eb1a13)*)
(* both kinds of append end inside the reservation: a header string writes *)
(* len + 1 bytes, an internal string VByte(lcp) + (len - lcp) + 1 bytes,   *)
(* where VByte(lcp) takes 1..5 bytes (7 bits per byte).                    *)
(* The original guard `used + 2*len <= reserved` does not imply it: the    *)
(* counterexample len = 1, lcp = 0, reserved - used = 2 is stated below as *)
(* a theorem too.                                                          *)
(***************************************************************************)
EXTENDS Naturals, TLAPS

VBLen(v) == IF v < 128 THEN 1 ELSE IF v < 16384 THEN 2 ELSE IF v < 2097152 THEN 3 ELSE IF v < 268435456 THEN 4 ELSE 5

THEOREM HeaderFits ==
  ASSUME NEW used \in Nat, NEW reserved \in Nat, NEW len \in Nat, len >= 1,
         used + 2 * len + 2 <= reserved
  PROVE  used + len + 1 <= reserved
  OBVIOUS

THEOREM InternalFits ==
  ASSUME NEW used \in Nat, NEW reserved \in Nat, NEW len \in Nat, NEW lcp \in Nat, len >= 1, lcp < len,
         used + 2 * len + 2 <= reserved
  PROVE  used + VBLen(lcp) + (len - lcp) + 1 <= reserved
  BY DEF VBLen

THEOREM OriginalGuardTooWeak ==
  \E used \in Nat, reserved \in Nat, len \in Nat, lcp \in Nat :
     /\ len >= 1 /\ lcp < len /\ used + 2 * len <= reserved
     /\ ~(used + VBLen(lcp) + (len - lcp) + 1 <= reserved)
  <1>1. /\ 1 >= 1 /\ 0 < 1 /\ 0 + 2 * 1 <= 2
        /\ ~(0 + VBLen(0) + (1 - 0) + 1 <= 2)
     BY DEF VBLen
  <1> QED BY <1>1
=============================================================================
