------------------------------ MODULE CSDBase ------------------------------
(***************************************************************************)
(* The 13 dictionary kinds, their capability table, and the answer         *)
(* operators of the API as functions of what a dictionary denotes:         *)
(* (S, table) with S the sorted input and table a bijection 1..n -> S.     *)
(* Shared by CSD.tla (the state machine, checked exhaustively in a small   *)
(* scope) and CSDTrace.tla (validation of recorded executions).            *)
(***************************************************************************)
EXTENDS Bytes, TLC


Kinds == {"PFC", "RPFC", "HTFC", "HHTFC", "RPHTFC", "RPDAC", "HASHHF", "HASHRPF", "HASHUFFDAC",
          "HASHRPDAC", "BLOCKS", "FMINDEX", "XBW"}
FCKinds      == {"PFC", "RPFC", "HTFC", "HHTFC", "RPHTFC"}
Ordered      == FCKinds \cup {"RPDAC", "FMINDEX"}
PrefixKinds  == Ordered \cup {"XBW"}
RankKinds    == Ordered \cup {"XBW"}
TableKinds   == Kinds \ {"XBW"}
GenericKinds == Kinds \ {"BLOCKS"}          \* named deviation: the block kind has its own loader only
OptKinds     == {"HASHHF", "HASHRPF"}       \* loaders that take a hash representation 1..3
Tag(k) == CASE k = "HASHHF" -> 11 [] k = "HASHUFFDAC" -> 114 [] k = "HASHRPF" -> 12 [] k = "HASHRPDAC" -> 124
            [] k = "BLOCKS" -> 125 [] k = "PFC" -> 211 [] k = "RPFC" -> 214 [] k = "HTFC" -> 221 [] k = "HHTFC" -> 222
            [] k = "RPHTFC" -> 223 [] k = "RPDAC" -> 3 [] k = "FMINDEX" -> 4 [] k = "XBW" -> 5

\* par: [bucket, overhead, sparse, bparam, bwt, cut, threads]; only the fields of the kind matter
LegalPar(k, par) ==
  /\ k \in FCKinds => par.bucket >= 2
  /\ k \in {"HASHHF", "HASHRPF", "HASHUFFDAC", "HASHRPDAC", "BLOCKS"} => par.overhead >= 0
  /\ k = "BLOCKS" => par.cut >= 1 /\ par.threads >= 1
  /\ k = "FMINDEX" => par.bwt >= 0
\* a bucket size below 2 is replaced by 2 (C12)
Clamp(k, par) == IF k \in FCKinds /\ par.bucket < 2 THEN [par EXCEPT !.bucket = 2] ELSE par

-----------------------------------------------------------------------------
(* Answers: functions of the denoted (S, table) only                         *)
N(o)            == Len(o.S)
IdOf(o, q)      == IndexOf(o.table, q)                          \* locate; 0 = NORESULT
StrOf(o, i)     == IF i \in 1..N(o) THEN o.table[i] ELSE <<>>    \* extract; <<>> = NULL (members are never empty)
PrefixIds(o, p) == {i \in 1..N(o) : IsPrefix(p, o.table[i])}
SubstrIds(o, p) == {i \in 1..N(o) : IsSubstr(p, o.table[i])}
HasPrefix(o)    == o.kind \in PrefixKinds
HasSubstr(o)    == o.kind = "XBW" \/ (o.kind = "FMINDEX" /\ o.par.bwt > 0)
HasRank(o)      == o.kind \in RankKinds
HasTable(o)     == o.kind \in TableKinds
\* rank queries: the ID of the k-th smallest member, and that member
RankId(o, k)    == IF k \in 1..N(o) THEN IdOf(o, o.S[k]) ELSE 0
RankStr(o, k)   == IF k \in 1..N(o) THEN o.S[k] ELSE <<>>
MaxLenOK(o, r)  == MaxLen(o.S) <= r /\ r <= MaxLen(o.S) + 1

IsBijection(o)  == /\ Len(o.table) = N(o)
                   /\ Range(o.table) = Range(o.S)
                   /\ \A i, j \in 1..N(o) : o.table[i] = o.table[j] => i = j
IsInterval(I)   == \A a, b \in I : \A c \in a..b : c \in I

=============================================================================
