------------------------------- MODULE Primes -------------------------------
(* nearest_prime() of Hash/HashUtils.h transcribed (trial division by odd numbers up to the integer *)
(* square root), and its contract.                                                                  *)
EXTENDS Naturals
IsPrime(p) == p >= 2 /\ \A d \in 2..(p - 1) : p % d # 0
ISqrt(x) == CHOOSE k \in 0..x : k * k <= x /\ (k + 1) * (k + 1) > x
\* nearest_prime(n): first odd candidate >= n without an odd divisor in 3..floor(sqrt)
RECURSIVE NearestPrime(_)
NearestPrime(p) == IF p % 2 # 0 /\ \A i \in 3..ISqrt(p) : (i % 2 = 0 \/ p % i # 0) THEN p ELSE NearestPrime(p + 1)
\* the function's contract (1 is returned for n <= 1: a one-cell table, handled by step_value)
NearestPrimeOK(n) == LET p == NearestPrime(n) IN p >= n /\ (p = 1 \/ IsPrime(p))

=============================================================================
