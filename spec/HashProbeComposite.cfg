SPECIFICATION Spec
CONSTANTS TSizes = {4}
MaxKeys = 3
INVARIANT AnySizeCorrect
CHECK_DEADLOCK FALSE
