------------------------------ MODULE Capacity ------------------------------
(***************************************************************************)
(* C07, "buffer growth keeps pace with the data": the capacity-check-then- *)
(* append rule of the plain front-coding constructor (which all five       *)
(* front-coding kinds run first), one action per input string:             *)
(*     while (used + Guard(len) > reserved) reserved := 2 * reserved;      *)
(*     header string:   append len + 1 bytes                               *)
(*     internal string: append VBLen(lcp) + (len - lcp) + 1 bytes          *)
(* Invariant WriteFits: every append ends inside the reservation.          *)
(* TLC explores all sequences of (len, lcp) with a scaled-down initial     *)
(* capacity; the distance `reserved - used` before a bad append and the    *)
(* (len, lcp) of the string are what the runner scales to the library's    *)
(* own constant to obtain a witness input (so that a fault seen only under *)
(* the MEMALLOC override is never reported on its own).                    *)
(* GuardExtra = 0 is the original guard `2 * len`; 2 is the repaired one.  *)
(***************************************************************************)
EXTENDS Naturals

CONSTANTS R0,          \* initial reservation (scaled)
          Bucket,      \* bucket size
          MaxLen,      \* longest string
          MaxStrings,  \* how many strings are appended at most
          GuardExtra

VARIABLES reserved, used, n, prevLen, bad
vars == <<reserved, used, n, prevLen, bad>>

VBLen(v) == IF v < 128 THEN 1 ELSE 2
Guard(len) == 2 * len + GuardExtra
RECURSIVE Grow(_, _)
Grow(r, need) == IF need > r THEN Grow(2 * r, need) ELSE r

Init == reserved = R0 /\ used = 0 /\ n = 0 /\ prevLen = 0 /\ bad = <<>>

Append(len, lcp) ==
  LET header == (n % Bucket) = 0
      r2 == Grow(reserved, used + Guard(len))
      w  == IF header THEN len + 1 ELSE VBLen(lcp) + (len - lcp) + 1
  IN  /\ n < MaxStrings /\ bad = <<>>
      /\ (header \/ lcp <= prevLen)             \* a common prefix cannot exceed the previous string
      /\ (~header /\ lcp = len => len > prevLen \/ TRUE)
      /\ reserved' = r2 /\ used' = used + w /\ n' = n + 1 /\ prevLen' = len
      /\ bad' = IF used + w > r2 THEN <<r2 - used, len, lcp, IF header THEN 1 ELSE 0>> ELSE <<>>

Next == \E len \in 1..MaxLen, lcp \in 0..MaxLen : lcp < len /\ Append(len, lcp)
Spec == Init /\ [][Next]_vars

\* every append stays inside the reservation
WriteFits == bad = <<>>
=============================================================================
