"""C09 (parallel block build is deterministic) and C11 (no data races in pool and build).

C09: TLC: WorkerPool.tla client P2 = the constructor's protocol (SlotOrder, Complete, all
     interleavings) and BlocksCutMC (cut rule is a function of the input; routing finds the block).
     Real constructor: under the deterministic scheduler (every schedule within a preemption bound)
     and free-running with 1..16 threads; each execution's Built event is validated by TLC
     (BlocksTrace: cut rule, completeness, digest = digest of the 1-thread reference) and its
     sync-level trace against WorkerPool.tla (PoolTrace, inference mode).
C11: TLC: Races.tla (vector clocks over L2: every access HB-ordered, all interleavings) + a seeded
     racy variant that must be caught; L2 conformance of the real constructor's sync trace (ties
     'which lock is held where' to the code); ThreadSanitizer as observation hook on free-running
     multi-block builds and pool stress: each report becomes a `race` event, never accepted."""
import concurrent.futures as cf
import glob, json, os, random, re, shutil, subprocess, time

import vlib
from checks import pool as P

BLOCKS_SRCS = ["harness/sched/blocks_main.cpp", "harness/sched/sched.cpp"]
BLOCKS_TSAN = ["harness/sched/blocks_main.cpp", "harness/sched/sched_stub.cpp"]
POOL_TSAN = ["harness/sched/pool_main.cpp", "harness/sched/sched_stub.cpp"]


# ------------------------------------------------------------------------------ inputs
def gen_inputs(rng, thorough):
    """name -> sorted list of distinct non-empty byte strings over 0x02..0xFE"""
    ins = {}
    ins["tiny6"] = [b"aa", b"ab", b"abc", b"b", b"ba", b"bb"]
    ins["single"] = [b"only"]
    ins["pinned_test"] = [b"x" + b"A" * 50 + bytes([c]) for c in b"ABCDEFGHIJ"]
    alpha = bytes(range(2, 255))

    def rnd(n, lo, hi, pre=b""):
        s = set()
        while len(s) < n:
            s.add(pre + bytes(rng.choice(alpha) for _ in range(rng.randint(lo, hi))))
        return sorted(s)
    ins["rand40"] = rnd(40, 1, 12)
    ins["prefix130"] = rnd(30, 1, 6, b"p" * 130)
    ins["short1"] = sorted(set(bytes([c]) for c in rng.sample(list(alpha), 25)))
    # blocks that grow: a few long strings first, then many short ones (later blocks hold more strings than
    # earlier ones built by the same worker)
    ins["growing"] = sorted(set([b"A" + bytes([65 + k]) * 90 for k in range(8)] + rnd(260, 2, 3, b"z")))
    # many small blocks (cut 1: one block per string): workers finish blocks while the producer's containers grow
    lower = bytes(range(97, 123))
    many = set()
    while len(many) < 1500:
        many.add(bytes(rng.choice(lower) for _ in range(rng.randint(6, 10))))
    ins["many1500"] = sorted(many)
    if thorough:
        ins["rand400"] = rnd(400, 1, 30)
        ins["mixed"] = sorted(set(rnd(60, 1, 3) + rnd(60, 100, 160, b"\xfe\xfe")))
        ins["rand1500"] = rnd(1500, 2, 10)
    return ins


def write_input(path, S):
    with open(path, "w") as fh:
        for s in S:
            fh.write(s.hex() + "\n")


def total_bytes(S):
    return sum(len(s) + 1 for s in S)


def cuts_for(S):
    tb = total_bytes(S)
    mx = max(len(s) for s in S) + 1
    c = {1, mx, max(1, tb // 3), max(1, tb // 2), tb - 1 if tb > 1 else 1, tb + 10, 1 << 27}
    return sorted(c)


def nblocks(S, cut):
    acc, n = 0, 0
    for i, s in enumerate(S):
        if acc == 0:
            n += 1
        acc += len(s) + 1
        if i == len(S) - 1 or acc > cut:
            acc = 0
    return n


def validate_blocks(trace, tag):
    out = trace + ".blk.out"
    if os.path.exists(out):
        os.unlink(out)
    r = vlib.tlc("BlocksTrace", "BlocksTrace.cfg", workers=1, env={"TRACE": trace, "OUT": out}, timeout=2400, java_opts=["-Xmx8g", "-Xss64m"])
    if r.rc != 0 or not os.path.exists(out):
        r = vlib.tlc("BlocksTrace", "BlocksTrace.cfg", workers=1, env={"TRACE": trace, "OUT": out}, timeout=2400, java_opts=["-Xmx8g", "-Xss64m"], quiet=False)
        if r.rc != 0 or not os.path.exists(out):
            raise RuntimeError("BlocksTrace failed to run rc=%s" % r.rc)
    lines = [json.loads(x) for x in open(out) if x.strip()]
    return lines[0], lines[1:]


def validate_l2_infer(trace, nw, nt, tag):
    cfg = P.cfgfile("blk_l2_%d_%d_%s.cfg" % (nw, nt, tag), P.trace_cfg("L2", nw, nt, "P2", True))
    out = trace + ".l2.out"
    if os.path.exists(out):
        os.unlink(out)
    r = vlib.tlc("PoolTrace", cfg, workers=1, env={"TRACE": trace, "OUT": out, "INFER": "1"}, timeout=2400, java_opts=["-Xmx8g", "-Xss64m"])
    if r.rc != 0 or not os.path.exists(out):
        raise RuntimeError("PoolTrace (infer) failed to run rc=%s\n%s" % (r.rc, r.out[-1500:]))
    lines = [json.loads(x) for x in open(out) if x.strip()]
    return lines[0], lines[1:]


def save_replay(pid, tag, trace, run, meta):
    d = vlib.replay_dir(pid, tag)
    lines, sched = P.split_runs(trace)[run]
    open(os.path.join(d, "trace.ndjson"), "w").writelines(lines)
    meta = dict(meta, schedule=sched, source_hash=vlib.src_hash())
    json.dump(meta, open(os.path.join(d, "replay.json"), "w"), indent=1)
    return d


# ------------------------------------------------------------------------------ shared pieces
def sched_explore(exe, work, name, S, overhead, cut, threads, pb, maxruns):
    inp = os.path.join(work, name + ".hex")
    write_input(inp, S)
    tr = os.path.join(work, "sx_%s_%d_%d_%d.ndjson" % (name, cut, threads, pb))
    # reference: the 1-thread free build first (same key), then the explored schedules
    ref = tr + ".ref"
    r0 = subprocess.run([exe, "free", inp, str(overhead), str(cut), "1", "1", ref], capture_output=True, text=True, timeout=600)
    r = subprocess.run([exe, "explore", inp, str(overhead), str(cut), str(threads), str(pb), str(maxruns), tr + ".x"],
                       capture_output=True, text=True, timeout=3000)
    if r.returncode != 0 or r0.returncode != 0:
        raise RuntimeError("blocks explorer failed: " + r.stderr[-400:])
    info = json.loads(r.stdout)
    with open(tr, "w") as out:
        out.write(open(ref).read().replace('"run":0,', '"run":-1,', 1).replace('"threads":1,"S"', '"threads":1,"S"', 1))
        out.write(open(tr + ".x").read())
    os.unlink(ref)
    # L2 file: only the scheduler runs (the reference has no sync trace and 1 worker)
    return tr, tr + ".x", info


def run_c09(pid, tier):
    t0 = time.time()
    V = vlib.Verdict(pid)
    thorough = tier == "thorough"
    rng = random.Random(vlib.seed())
    exe = vlib.build_harness("blocks", BLOCKS_SRCS, "plain")
    work = os.path.join(vlib.WORK, pid)
    shutil.rmtree(work, ignore_errors=True)
    os.makedirs(work)
    ins = gen_inputs(rng, thorough)

    # ---- A. design level
    states = trans = 0
    jobs = [(nw, nt, "P2", True) for nw in (1, 2, 3) for nt in (0, 1, 2, 3) if thorough or (nw <= 2)]
    with cf.ThreadPoolExecutor(max_workers=4) as ex:
        for key, r in ex.map(lambda j: P.design_run(*j, tag="c09" + tier), jobs):
            if r.rc != 0:
                raise RuntimeError("WorkerPool P2 design run failed for %s rc=%s" % (key, r.rc))
            states += r.distinct
            trans += r.generated
    cutcfg = P.cfgfile("blockscut_%s.cfg" % tier, "SPECIFICATION Spec\nCONSTANTS MaxLen = 3\nMaxN = %d\nMaxCut = 14\nINVARIANT Inv\nCHECK_DEADLOCK FALSE\n" % (5 if thorough else 4))
    r = vlib.tlc("BlocksCutMC", cutcfg, workers=8, timeout=3000, java_opts=["-Xmx12g"])
    if r.rc != 0:
        raise RuntimeError("BlocksCutMC failed rc=%s violated=%s" % (r.rc, r.violated))
    states += r.distinct
    trans += r.generated
    cut_inputs = r.distinct

    # ---- B. the real constructor under the scheduler
    execs = 0
    samples = []
    plan = [("tiny6", 5, 2, 1, 8000), ("tiny6", 5, 1, 2, 8000), ("tiny6", 8, 2, 2 if thorough else 1, 60000 if thorough else 8000)]
    if thorough:
        plan += [("tiny6", 5, 3, 1, 60000), ("tiny6", 3, 2, 1, 60000), ("pinned_test", 200, 2, 1, 40000)]
    l2div = 0
    sched_runs = 0
    explored = []
    for name, cut, threads, pb, maxruns in plan:
        S = ins[name]
        tr, trx, info = sched_explore(exe, work, name, S, 25, cut, threads, pb, maxruns)
        h, bad = validate_blocks(tr, "sx")
        nt = nblocks(S, cut)
        h2, bad2 = validate_l2_infer(trx, threads, nt, "sx")
        l2div += h2["diverged"]
        execs += h["runs"]
        sched_runs += info["runs"]
        explored.append({"input": name, "cut": cut, "threads": threads, "blocks": nt, "preemption_bound": pb,
                         "schedules": info["runs"], "exhaustive_within_bound": not info["truncated"],
                         "rejected": h["rejected"], "l2_diverged": h2["diverged"]})
        for b in bad[:3]:
            d = save_replay(pid, "sched_%s_%d_%d_run%d" % (name, cut, threads, b["run"]), tr, b["run"],
                            {"mode": "sched", "input": [s.hex() for s in S], "overhead": 25, "cut": cut, "threads": threads, "rejected": b})
            V.reject({"mode": "sched", "why": b.get("why"), "input": name}, "BlocksTrace rejects scheduled execution: %s" % b, d)
        if len(samples) < 3:
            runs = P.split_runs(tr)
            k = sorted(runs)[len(runs) // 2]
            built = [x for x in runs[k][0] if '"Built"' in x]
            samples.append({"kind": "scheduled execution of the real constructor", "input": name, "cut": cut, "threads": threads,
                            "schedule": runs[k][1][:400], "built": json.loads(built[0]) if built else None})

    # ---- C. free-running: thread counts x cut sizes x input shapes
    free_tr = os.path.join(work, "free.ndjson")
    reps = 4 if thorough else 1
    groups = 0
    with open(free_tr, "w") as out:
        run_no = 0
        for name, S in ins.items():
            inp = os.path.join(work, name + ".hex")
            write_input(inp, S)
            for cut in cuts_for(S):
                for ov in ((0, 25) if thorough else (25,)):
                    groups += 1
                    for threads in (1, 2, 3, 8, 16):
                        one = free_tr + ".one"
                        n = 1 if threads == 1 else reps
                        r = subprocess.run([exe, "free", inp, str(ov), str(cut), str(threads), str(n), one],
                                           capture_output=True, text=True, timeout=1200)
                        if r.returncode != 0:
                            raise RuntimeError("blocks free run failed: " + r.stderr[-300:])
                        for line in open(one):
                            if line.startswith('{"e":"Reset"'):
                                line = re.sub(r'"run":\d+', '"run":%d' % run_no, line, 1)
                                run_no += 1
                            out.write(line)
                        if threads in (3, 8) and nblocks(S, cut) >= 20:
                            # the same build with the producer slowed down whenever it frees a buffer (schedule perturbation
                            # from outside the library): unlocked accesses of the producer to shared containers get a wide window
                            r = subprocess.run([exe, "free", inp, str(ov), str(cut), str(threads), str(n), one],
                                               capture_output=True, text=True, timeout=1200, env=dict(os.environ, BLOCKS_PERTURB="1"))
                            if r.returncode != 0:
                                raise RuntimeError("blocks free run (perturbed) failed: " + r.stderr[-300:])
                            for line in open(one):
                                if line.startswith('{"e":"Reset"'):
                                    line = re.sub(r'"run":\d+', '"run":%d' % run_no, line, 1)
                                    run_no += 1
                                out.write(line)
    h, bad = validate_blocks(free_tr, "free")
    execs += h["runs"]
    free_runs = h["runs"]
    for b in bad[:4]:
        lines, _ = P.split_runs(free_tr)[b["run"]]
        rs = json.loads(lines[0])
        d = vlib.replay_dir(pid, "free_run%d" % b["run"])
        open(os.path.join(d, "trace.ndjson"), "w").writelines(lines)
        json.dump({"mode": "free", "input": [bytes(s).hex() for s in rs["S"]], "overhead": rs["overhead"], "cut": rs["cut"],
                   "threads": rs["threads"], "rejected": b, "source_hash": vlib.src_hash()}, open(os.path.join(d, "replay.json"), "w"), indent=1)
        V.reject({"mode": "free", "why": b.get("why")}, "BlocksTrace rejects free-running execution: %s" % b, d)
    if bad:
        pass
    else:
        runs = P.split_runs(free_tr)
        k = sorted(runs)[-1]
        built = [x for x in runs[k][0] if '"Built"' in x]
        samples.append({"kind": "free-running execution", "reset": json.loads(runs[k][0][0]).get("threads"), "built": json.loads(built[0]) if built else None})
    shutil.rmtree(work, ignore_errors=True)

    coverage = {"states": states, "transitions": trans, "traces_validated_against_impl": execs, "samples": samples,
                "cut_rule_inputs_exhaustive": cut_inputs, "scheduled": explored, "scheduled_executions": sched_runs,
                "free_running_executions": free_runs, "free_groups_input_x_cut_x_overhead": groups,
                "thread_counts": [1, 2, 3, 8, 16],
                "l2_conformance_of_constructor": ("every scheduled execution of the constructor is a behaviour of WorkerPool.tla (client P2)"
                                                  if l2div == 0 else "%d scheduled executions diverge from WorkerPool.tla P2" % l2div),
                "exhaustive": False}
    rc = V.finish()
    vlib.write_evidence(pid, tier, "model_checking", coverage,
                        ["image equality is compared through a 128-bit digest and the byte length",
                         "the reference of each (input, overhead, cut) group is the 1-thread build",
                         "scheduling points are pthread operations (see C10)"],
                        time.time() - t0, len(V.violations), {"known_findings_hit": sorted(V.known)})
    return rc


# ------------------------------------------------------------------------------ C11
_tsan_head = re.compile(r"WARNING: ThreadSanitizer: ([^\(\n]+)")
_frame = re.compile(r"#\d+ (\S+) (?:%s/|/repo/|/verif/)?(\S+?):(\d+)" % re.escape(vlib.REPO))


def parse_tsan(logglob):
    """TSan log files -> list of race signatures (kind, first repo frame of each stack)"""
    out = []
    for f in glob.glob(logglob):
        txt = open(f, errors="replace").read()
        for blk in txt.split("==================")[1:]:
            m = _tsan_head.search(blk)
            if not m:
                continue
            kind = m.group(1).strip()
            stacks = re.split(r"\n\s*\n", blk)
            sites = []
            for st in stacks:
                fr = [x for x in _frame.findall(st) if not x[1].startswith("/usr") and "sanitizer" not in x[1]]
                if fr and ("by thread" in st or "by main thread" in st or "Previous" in st or "Write of" in st or "Read of" in st):
                    sites.append("%s@%s:%s" % fr[0])
            out.append({"kind": kind, "sites": sites[:2], "file": os.path.basename(f)})
        os.unlink(f)
    return out


def run_c11(pid, tier):
    t0 = time.time()
    V = vlib.Verdict(pid)
    thorough = tier == "thorough"
    rng = random.Random(vlib.seed())
    work = os.path.join(vlib.WORK, pid)
    shutil.rmtree(work, ignore_errors=True)
    os.makedirs(work)
    ins = gen_inputs(rng, thorough)

    # ---- A. Races.tla: all interleavings, every access HB-ordered; seeded variant must be caught
    cfgs = [("P1", 1, 1), ("P1", 2, 1), ("P3", 2, 2), ("P2", 2, 2), ("P2", 1, 3)] + ([("P2", 2, 3), ("P1", 2, 3), ("P3", 3, 2)] if thorough else [])
    states = trans = 0
    design = []

    def races_run(c):
        cl, nw, nt = c
        cfg = P.cfgfile("races_%s_%d_%d.cfg" % c, "SPECIFICATION RSpec\nCONSTANTS NW = %d\nNT = %d\nClient = \"%s\"\nLocked = TRUE\nSeeded = \"none\"\nINVARIANT RaceFree\nCHECK_DEADLOCK FALSE\n" % (nw, nt, cl))
        return c, vlib.tlc("Races", cfg, workers=4, timeout=3000, java_opts=["-Xmx10g"])
    with cf.ThreadPoolExecutor(max_workers=4) as ex:
        for c, r in ex.map(races_run, cfgs):
            if vlib.tlc_model_failure(r):
                raise RuntimeError("Races.tla failed to run for %s" % (c,))
            if r.rc != 0:
                raise RuntimeError("Races.tla: the L2 model itself has a race for %s (violated=%s): the model no longer matches its intent" % (c, r.violated))
            states += r.distinct
            trans += r.generated
            design.append({"client": c[0], "nw": c[1], "nt": c[2], "distinct": r.distinct})
    seeded_caught = []
    for sd in ("done_after_unlock", "slot_without_m"):
        cfg = P.cfgfile("races_seeded_%s.cfg" % sd, "SPECIFICATION RSpec\nCONSTANTS NW = 2\nNT = 2\nClient = \"P2\"\nLocked = TRUE\nSeeded = \"%s\"\nINVARIANT RaceFree\nCHECK_DEADLOCK FALSE\n" % sd)
        r = vlib.tlc("Races", cfg, workers=4, timeout=600)
        if r.violated != "RaceFree":
            raise RuntimeError("vacuity: Races.tla does not flag the seeded racy variant %s" % sd)
        seeded_caught.append(sd)

    # ---- B. L2 conformance of the real constructor (sync structure = the model's)
    exe = vlib.build_harness("blocks", BLOCKS_SRCS, "plain")
    S = ins["tiny6"]
    tr, trx, info = sched_explore(exe, work, "tiny6", S, 25, 5, 2, 1, 8000)
    h2, bad2 = validate_l2_infer(trx, 2, nblocks(S, 5), "c11")
    execs = h2["runs"]
    l2div = h2["diverged"]

    # ---- C. ThreadSanitizer as observation hook
    bexe = vlib.build_harness("blocks_tsan", BLOCKS_TSAN, "tsan")
    pexe = vlib.build_harness("pool_tsan", POOL_TSAN, "tsan")
    os.makedirs(os.path.join(work, "tsanlog"))
    logbase = os.path.join(work, "tsanlog", "log")
    env = dict(os.environ, TSAN_OPTIONS="halt_on_error=0 exitcode=0 report_signal_unsafe=0 log_path=" + logbase)
    tsan_tr = os.path.join(work, "tsan.ndjson")
    run_no = 0
    tsan_runs = 0
    samples = []
    with open(tsan_tr, "w") as out:
        for name, Sx in ins.items():
            inp = os.path.join(work, name + ".hex")
            write_input(inp, Sx)
            for cut in cuts_for(Sx):
                if nblocks(Sx, cut) < 2:
                    continue
                for threads in ((2, 3, 8) if not thorough else (2, 3, 4, 8, 16)):
                    one = tsan_tr + ".one"
                    n = 3 if thorough else 1
                    r = subprocess.run([bexe, "free", inp, "25", str(cut), str(threads), str(n), one], capture_output=True, text=True, env=env, timeout=1800)
                    if r.returncode != 0:
                        raise RuntimeError("tsan blocks run failed: " + r.stderr[-300:])
                    races = parse_tsan(logbase + ".*")
                    txt = open(one).read()
                    first = True
                    for line in txt.splitlines(True):
                        if line.startswith('{"e":"Reset"'):
                            line = re.sub(r'"run":\d+', '"run":%d' % run_no, line, 1)
                            run_no += 1
                            tsan_runs += 1
                            out.write(line)
                            if first:
                                for rc_ in races:
                                    out.write(json.dumps({"e": "race", "kind": rc_["kind"], "sites": rc_["sites"]}) + "\n")
                                first = False
                        else:
                            out.write(line)
                    if len(samples) < 2:
                        samples.append({"kind": "TSan-observed free-running build", "input": name, "cut": cut, "threads": threads, "race_reports": len(races)})
        # pool stress under TSan
        for cl in P.CLIENTS:
            for (nw, nt) in ((2, 10), (4, 60), (8, 100)) + (((16, 200), (3, 1)) if thorough else ()):
                one = tsan_tr + ".one"
                r = subprocess.run([pexe, "stress", str(nw), str(nt), cl, "8" if not thorough else "20", one], capture_output=True, text=True, env=env, timeout=1800)
                races = parse_tsan(logbase + ".*")
                first = True
                for line in open(one):
                    if line.startswith('{"e":"Reset"'):
                        d = json.loads(line)
                        d.update({"run": run_no, "S": [], "overhead": 0, "cut": 0, "threads": nw, "mode": "poolstress"})
                        run_no += 1
                        tsan_runs += 1
                        out.write(json.dumps(d, separators=(",", ":")) + "\n")
                        if first:
                            for rc_ in races:
                                out.write(json.dumps({"e": "race", "kind": rc_["kind"], "sites": rc_["sites"]}) + "\n")
                            first = False
                    elif line.startswith('{"e":"End"') or line.startswith('{"e":"Timeout"') or line.startswith('{"e":"Crash"'):
                        out.write(line)
    h, bad = validate_blocks(tsan_tr, "tsan")
    execs += h["runs"]
    for b in bad[:6]:
        lines, _ = P.split_runs(tsan_tr)[b["run"]]
        rs = json.loads(lines[0])
        d = vlib.replay_dir(pid, "tsan_run%d" % b["run"])
        open(os.path.join(d, "trace.ndjson"), "w").writelines(lines)
        race_lines = [json.loads(x) for x in lines if x.startswith('{"e": "race"') or x.startswith('{"e":"race"')]
        json.dump({"mode": rs.get("mode"), "input": [bytes(s).hex() for s in rs.get("S", [])], "overhead": rs.get("overhead"), "cut": rs.get("cut"),
                   "threads": rs.get("threads"), "client": rs.get("client"), "nt": rs.get("nt"), "rejected": b, "races": race_lines,
                   "source_hash": vlib.src_hash()}, open(os.path.join(d, "replay.json"), "w"), indent=1)
        sig = {"why": b.get("why"), "sites": race_lines[0]["sites"] if race_lines else None}
        V.reject(sig, "race / failure in TSan-observed execution: %s %s" % (b, race_lines[:1]), d)
    shutil.rmtree(work, ignore_errors=True)

    coverage = {"states": states, "transitions": trans, "traces_validated_against_impl": execs,
                "samples": samples + [{"kind": "Races.tla config", "cfg": design[0]}],
                "races_tla_configs": design, "seeded_racy_variants_caught": seeded_caught,
                "constructor_l2_conformance": "%d scheduled constructor executions, %d diverging from WorkerPool.tla P2" % (h2["runs"], l2div),
                "tsan_observed_executions": tsan_runs, "exhaustive": False,
                "verdict_sources": {"TLC alone": "HB-ordering of every modelled access in all interleavings (Races.tla); sync structure of the real constructor = model (PoolTrace)",
                                    "sanitizer as observation hook": "data races on any location in the real code during the observed executions (ThreadSanitizer reports -> race events)"}}
    rc = V.finish()
    vlib.write_evidence(pid, tier, "model_checking", coverage,
                        ["ThreadSanitizer (gcc 12) reports every data race that occurs in an observed execution (its usual completeness caveats apply)",
                         "condition-variable notifications carry no happens-before edge in Races.tla (conservative)",
                         "the accesses attached to each L2 action in Races.tla were transcribed from the code by reading it"],
                        time.time() - t0, len(V.violations), {"known_findings_hit": sorted(V.known)})
    return rc


def run(pid, tier):
    return run_c09(pid, tier) if pid == "C09" else run_c11(pid, tier)


def replay(pid, path):
    info = json.load(open(os.path.join(path, "replay.json")))
    work = os.path.join(path, "re")
    os.makedirs(work, exist_ok=True)
    if info.get("mode") == "poolstress":
        exe = vlib.build_harness("pool_tsan", POOL_TSAN, "tsan")
        env = dict(os.environ, TSAN_OPTIONS="halt_on_error=0 exitcode=0 log_path=" + os.path.join(work, "tsanlog_"))
        subprocess.run([exe, "stress", str(info["threads"]), str(info["nt"]), info["client"], "20", os.path.join(work, "t.ndjson")], env=env, capture_output=True)
        races = parse_tsan(os.path.join(work, "tsanlog_") + ".*")
        if races:
            print("VIOLATION property=%s replay=%s" % (pid, path))
            print("  ", races[0])
            return 1
        print("replay: no race observed on the current tree")
        return 0
    S = [bytes.fromhex(x) for x in info["input"]]
    inp = os.path.join(work, "in.hex")
    write_input(inp, S)
    tr = os.path.join(work, "t.ndjson")
    tsan = pid == "C11"
    exe = vlib.build_harness("blocks_tsan", BLOCKS_TSAN, "tsan") if tsan else vlib.build_harness("blocks", BLOCKS_SRCS, "plain")
    env = dict(os.environ, TSAN_OPTIONS="halt_on_error=0 exitcode=0 log_path=" + os.path.join(work, "tsanlog_"))
    ref = tr + ".ref"
    subprocess.run([exe, "free", inp, str(info["overhead"]), str(info["cut"]), "1", "1", ref], capture_output=True, env=env)
    if info.get("mode") == "sched" and not tsan:
        subprocess.run([exe, "replay", inp, str(info["overhead"]), str(info["cut"]), str(info["threads"]), info["schedule"], tr + ".x"], capture_output=True)
    else:
        subprocess.run([exe, "free", inp, str(info["overhead"]), str(info["cut"]), str(info["threads"]), "20", tr + ".x"], capture_output=True, env=env)
    races = parse_tsan(os.path.join(work, "tsanlog_") + ".*") if tsan else []
    with open(tr, "w") as out:
        out.write(open(ref).read().replace('"run":0,', '"run":-1,', 1))
        out.write(open(tr + ".x").read())
    h, bad = validate_blocks(tr, "rp")
    if h["rejected"] or races:
        print("VIOLATION property=%s replay=%s" % (pid, path))
        print("  ", (bad or races)[0])
        return 1
    print("replay: accepted on the current tree (%d runs)" % h["runs"])
    return 0
