"""C17-C20: components (integer codecs, codes, bundled succinct structures, Re-Pair).

Per property: (1) TLC checks the component specification in a small scope (CompMC.tla: the
definitions are consistent, decode inverts encode, the shift/mask field access transcribed from
LogSequence refines an abstract array, rank/select are inverse, Re-Pair as pair replacement is
lossless); (2) harness/comp calls the real components the way the dictionaries do and logs inputs
and outputs; (3) TLC evaluates the definitions over the recorded trace (CompTrace.tla, monitor
mode).  The harness computes no expected values."""
import concurrent.futures as cf
import hashlib, json, os, random, re, shutil, subprocess, time

import vlib

COMP_SRCS = ["harness/comp/comp.cpp"]
PLAN = {"C17": (["vbyte", "logseq", "daclayout", "layoutproofs"], ["vbyte", "logseq", "dacvls"]),
        "C18": (["codes", "chunk"], ["codes", "tabledec"]),
        "C19": (["succinct", "rg", "rrr"], ["bitseq", "wt"]),
        "C20": (["repair"], ["repair"])}
_bad_re = re.compile(r'^<<"BAD", "(.*)">>$')


def mc(which):
    if which == "layoutproofs":
        n = vlib.tlaps("LayoutProofs")
        return vlib.TLCResult(rc=0, out="", wall=0.0, cmd="tlapm LayoutProofs.tla", distinct=0, generated=0, tlaps_obligations_proved=n)
    if which == "rrr":
        cfg = os.path.join(vlib.CACHE, "cfg", "rrrspec.cfg")
        os.makedirs(os.path.dirname(cfg), exist_ok=True)
        open(cfg, "w").write("SPECIFICATION Spec\nCONSTANTS BS = 3\nMaxN = 10\nRates = {1, 2, 3}\nINVARIANT Inv\nCHECK_DEADLOCK FALSE\n")
        r = vlib.tlc("RRRSpec", cfg, workers=8, timeout=1800, java_opts=["-Xmx6g"])
        if r.rc != 0:
            raise RuntimeError("RRRSpec.tla failed: rc=%s violated=%s" % (r.rc, r.violated))
        return r
    if which == "daclayout":
        body = "SPECIFICATION Spec\nCONSTANTS MaxSeqs = 3\nMaxLen = 3\nSyms = {1, 2}\nLenSlack = %s\nBoundFirst = %s\nINVARIANT AccessOK\nCHECK_DEADLOCK FALSE\n"
        os.makedirs(os.path.join(vlib.CACHE, "cfg"), exist_ok=True)
        res = None
        for slack, bf, want_ok in (("1", "TRUE", True), ("2", "TRUE", False), ("1", "FALSE", False)):
            cfg = os.path.join(vlib.CACHE, "cfg", "dac_%s_%s.cfg" % (slack, bf))
            open(cfg, "w").write(body % (slack, bf))
            r = vlib.tlc("DacLayout", cfg, workers=6, timeout=1800, java_opts=["-Xmx6g"])
            if want_ok and r.rc != 0:
                raise RuntimeError("DacLayout.tla (code as it is) fails: rc=%s violated=%s" % (r.rc, r.violated))
            if not want_ok and r.violated != "AccessOK":
                raise RuntimeError("vacuity: DacLayout.tla no longer flags the original defect (LenSlack=%s BoundFirst=%s)" % (slack, bf))
            if want_ok:
                res = r
        return res
    cfg = os.path.join(vlib.CACHE, "cfg", "compmc_%s.cfg" % which)
    os.makedirs(os.path.dirname(cfg), exist_ok=True)
    open(cfg, "w").write('SPECIFICATION Spec\nCONSTANT Which = "%s"\nINVARIANT Inv\nCHECK_DEADLOCK FALSE\n' % which)
    r = vlib.tlc("CompMC", cfg, workers=8, timeout=1800, java_opts=["-Xmx8g"])
    if r.rc != 0:
        raise RuntimeError("CompMC %s failed: rc=%s violated=%s" % (which, r.rc, r.violated))
    return r


def trace_section(exe, what, work, tier):
    tr = os.path.join(work, what + ".ndjson")
    r = subprocess.run([exe, what, tr, str(vlib.seed()), tier], capture_output=True, text=True, timeout=7200)
    if r.returncode != 0:
        raise RuntimeError("comp driver failed on %s: %s" % (what, r.stderr[-300:]))
    # a section that dies may leave a partial line in front of the crash event the parent appends: drop it
    good, dropped = [], 0
    for line in open(tr, errors="replace"):
        try:
            json.loads(line)
            good.append(line)
        except ValueError:
            k = line.rfind('{"e":"crash"')
            k = k if k >= 0 else line.rfind('{"e":"timeout"')
            if k >= 0:
                good.append(line[k:])
            dropped += 1
    if dropped:
        open(tr, "w").writelines(good)
    # large traces are cut into chunks (at the start of a component instance, so that every event stays with the
    # instance it refers to; each chunk starts with the Reset of its section) and validated by parallel TLC runs
    lines = open(tr, errors="replace").read().split("\n")
    lines = [x for x in lines if x]
    starts = ('{"e":"LSNew"', '{"e":"DACBuild"', '{"e":"Code"', '{"e":"BSBuild"', '{"e":"SeqBuild"', '{"e":"RPIn"', '{"e":"VB"', '{"e":"NP"', '{"e":"Reset"')
    target = max(4000, len(lines) // 12)
    chunks, cur, sec = [], [], None
    for line in lines:
        if line.startswith('{"e":"Reset"'):
            sec = line
        if len(cur) >= target and line.startswith(starts):
            chunks.append(cur)
            cur = [sec] if sec and not line.startswith('{"e":"Reset"') else []
        cur.append(line)
    if cur:
        chunks.append(cur)
    files = []
    for i, c in enumerate(chunks):
        f = "%s.c%d" % (tr, i)
        open(f, "w").write("\n".join(c) + "\n")
        files.append(f)

    def one(f):
        t = vlib.tlc("CompTrace", "CompTrace.cfg", workers=1, env={"TRACE": f}, timeout=7200, java_opts=["-Xmx4g", "-Xss64m"])
        if t.rc != 0:
            t = vlib.tlc("CompTrace", "CompTrace.cfg", workers=1, env={"TRACE": f}, timeout=7200, java_opts=["-Xmx4g", "-Xss64m"], quiet=False)
            if t.rc != 0:
                raise RuntimeError("CompTrace failed to run on %s (rc=%s)" % (what, t.rc))
        return t
    with cf.ThreadPoolExecutor(max_workers=6) as ex:
        results = list(ex.map(one, files))
    bad = []
    nev = 0
    for t in results:
        nev += max(0, (t.distinct or 1) - 1)
        for line in t.out.split("\n"):
            m = _bad_re.match(line)
            if m:
                b = json.loads(m.group(1).replace('\\"', '"').replace("\\\\", "\\"))
                b["_trace"] = tr
                bad.append(b)
    first, inst = [], 0
    with open(tr) as fh:
        for i, line in enumerate(fh):
            if i in (1, 2):
                first.append(json.loads(line) if len(line) < 1500 else {"e": json.loads(line)["e"], "note": "long event elided"})
            # one "execution" = one component instance built/driven (or one codec call for the stateless codecs)
            if line.startswith(('{"e":"LSNew"', '{"e":"DACBuild"', '{"e":"Code"', '{"e":"BSBuild"', '{"e":"SeqBuild"', '{"e":"RPIn"', '{"e":"VB"', '{"e":"NP"')):
                inst += 1
    return what, bad, nev, first, inst


def sec_class(sec):
    """section name without its numeric parameters: the granularity of known findings"""
    return re.sub(r"-\d+$", "", sec)


def run(pid, tier):
    t0 = time.time()
    V = vlib.Verdict(pid)
    exe = vlib.build_harness("comp", COMP_SRCS, "plain")
    work = os.path.join(vlib.WORK, pid)
    shutil.rmtree(work, ignore_errors=True)
    os.makedirs(work)
    models, traces = PLAN[pid]
    states = trans = 0
    tlaps_n = 0
    with cf.ThreadPoolExecutor(max_workers=3) as ex:
        mfut = [ex.submit(mc, w) for w in models]
        tfut = [ex.submit(trace_section, exe, w, work, tier) for w in traces]
        for f in mfut:
            r = f.result()
            states += r.distinct
            trans += r.generated
            if r.get("tlaps_obligations_proved"):
                tlaps_n = r["tlaps_obligations_proved"]
        res = [f.result() for f in tfut]
    events = 0
    samples = []
    allbad = []
    instances = 0
    for what, bad, nev, first, inst in res:
        events += nev
        instances += inst
        samples.append({"component": what, "first_events": first})
        allbad += [b for b in bad if b["p"] == pid]
    extra = {}
    if tlaps_n:
        extra["tlaps_obligations_proved"] = tlaps_n
    if pid == "C18":
        # table decoding is bound through the four kinds that use it (DESIGN 5/C18): members must round-trip
        from checks import csd
        import csdgen as G
        rng = random.Random(vlib.seed() * 31 + 18)
        progs = []
        shapes = {"skewed": G.rnd_set(rng, 30, 2, 14, b"", b"aaaaaaaaaaaaaaaaaaaaaaaabbbbbbc"),
                  "uniform": G.rnd_set(rng, 30, 2, 10),
                  "dominant": G.rnd_set(rng, 20, 5, 30, b"", b"a" * 60 + b"bcdefghij"),
                  "fib": sorted(set(bytes([60 + k]) * (1 + (1 << min(k, 6))) + bytes([60 + k + 1]) for k in range(12))),
                  "small": [b"aa", b"ab", b"abc", b"b", b"ba"]}
        shapes["geometric"] = G.geometric_set()
        for kind in ("HTFC", "HHTFC", "HASHHF", "HASHUFFDAC"):
            for name, S in shapes.items():
                pars = G.param_grid(kind, S, tier == "thorough")[:2]
                if name == "geometric":
                    pars = [G.P(bucket=16, overhead=25)]

                def sec(h, its, S=S, name=name):
                    o = G.sec_members(h, S, rng, 30)
                    if name == "geometric":      # every string that contains a rare byte
                        idx = [i + 1 for i, x in enumerate(S) if any(c >= 75 for c in x)][:80]
                        o += ["E %d %d" % (h, i) for i in idx] + ["L %d %s" % (h, G.hx(S[i - 1])) for i in idx]
                    return o
                for par in pars:
                    progs += csd.obj_programs("C18", kind, par, name, S, "members", sec)
        bad, st = csd.campaign(progs, "plain", work, "C18dict", tmo=20)
        rel = [b for b in bad if b["p"] in ("C01", "C03") or b["ev"] in ("crash", "timeout")]
        csd.resolve_crash_sites(rel, work)
        for b in rel:
            sg = csd.signature(b)
            allbad.append({"p": "C18", "sec": "dict-" + sg["kind"], "why": "table decoding through %s: %s" % (sg["kind"], sg["why"]),
                           "ev": sg["ev"], "id": -1, "l": b["l"], "_sig": sg, "_trace": b.get("_trace"), "_progfile": b.get("_progfile"), "_prog": b["prog"]})
        events += st["events"]
        extra["dictionary_programs"] = st["programs"]

    if pid == "C20":
        # second binding (DESIGN 5/C20): the grammar as the Re-Pair dictionaries store and reload it - every member
        # of built and loaded RPDAC / HASHRPDAC / RPFC / HASHRPF / RPHTFC dictionaries must still be addressable
        from checks import csd
        import csdgen as G
        rng = random.Random(vlib.seed() * 31 + 20)
        progs = []
        shapes = {"hi_lo": sorted([b"\x02", b"\x02\xfe", b"\x7f", b"\x80", b"\xfe", b"\xfe\x02", b"a\x80", b"a\xfe\xfe"]),
                  "repeats": sorted([b"abababab", b"abab", b"bababa", b"aaaaaaaa", b"aaaa", b"abcabcabc", b"bcbcbc"]),
                  "rand60": G.rnd_set(rng, 60, 1, 14, b"", b"abcde"),
                  "fullbytes": G.rnd_set(rng, 80, 1, 6),
                  "single": [b"zzzzzzzz"], "small": [b"aa", b"ab", b"abc", b"b", b"ba"]}
        for kind in ("RPDAC", "HASHRPDAC", "RPFC", "HASHRPF", "RPHTFC"):
            for name, S in shapes.items():
                for par in G.param_grid(kind, S, False)[:1]:
                    progs += csd.obj_programs("C20", kind, par, name, S, "members", lambda h, its: G.sec_members(h, S, rng, 30), all_loads=True)
        bad, st = csd.campaign(progs, "plain", work, "C20dict", tmo=6)
        bad, _nr = csd.confirm_timeouts(bad, work, "plain", "C20dict")
        # a text large enough for the compressor's pair table to be rebuilt while it runs (more than 98 303 distinct
        # pairs alive at once needs over a megabyte of pair-rich text): 100 000 random strings over 29 symbols
        hrng = random.Random(vlib.seed() * 31 + 2020)
        huge = G.rnd_set(hrng, 100000, 10, 20, b"", bytes(range(65, 65 + 29)))
        hprogs = []
        for kind in ("RPDAC", "HASHRPDAC"):
            par = G.param_grid(kind, huge, False)[0]
            hprogs += csd.obj_programs("C20", kind, par, "huge100k", huge, "members", lambda h, its: G.sec_meta(h) + G.sec_members(h, huge, hrng, 8),
                                       origins=("built", "loaded") if tier == "thorough" else ("built",))
        hbad, hst = csd.campaign(hprogs, "plain", work, "C20huge", tmo=90)
        bad += hbad
        st = {k: st[k] + hst.get(k, 0) for k in st}
        rel = [b for b in bad if b["p"] in ("C01", "C03") or b["ev"] in ("crash", "timeout")]
        csd.resolve_crash_sites(rel, work)
        for b in rel:
            sg = csd.signature(b)
            allbad.append({"p": "C20", "sec": "dict-" + sg["kind"], "why": "Re-Pair grammar through %s: %s" % (sg["kind"], sg["why"]),
                           "ev": sg["ev"], "id": -1, "l": b["l"], "_sig": sg, "_trace": b.get("_trace"), "_progfile": b.get("_progfile"), "_prog": b["prog"]})
        events += st["events"]
        extra["dictionary_programs"] = st["programs"]

    if os.environ.get("VERIF_DUMP_KNOWN"):
        for b in allbad:
            sg = dict(b.get("_sig") or {"sec": sec_class(b["sec"]), "why": b["why"], "ev": b["ev"]}, p=pid)
            f = vlib.match_finding(V.findings, pid, sg)
            vlib.dump_known(f["id"] if f else "-", pid, sg)
    seen = {}
    for b in allbad:
        sig = b.get("_sig") or {"sec": sec_class(b["sec"]), "why": b["why"], "ev": b["ev"]}
        sig = dict(sig, p=pid)
        key = json.dumps({k: sig.get(k) for k in ("sec", "kind", "origin", "why", "ev", "site")}, sort_keys=True)
        e = seen.setdefault(key, {"n": 0, "b": b, "sig": sig})
        e["n"] += 1
    for key, e in seen.items():
        b, sig = e["b"], e["sig"]
        f = vlib.match_finding(V.findings, pid, sig)
        if f is not None:
            c = V.known.get(f["id"], (f, 0))[1]
            V.known[f["id"]] = (f, c + e["n"])
            continue
        tag = hashlib.sha1(key.encode()).hexdigest()[:10]
        d = vlib.replay_dir(pid, tag)
        json.dump({"record": {k: v for k, v in b.items() if not k.startswith("_")}, "signature": sig, "occurrences": e["n"],
                   "source_hash": vlib.src_hash()}, open(os.path.join(d, "replay.json"), "w"), indent=1)
        if b.get("_trace") and os.path.exists(b["_trace"]) and "_prog" not in b:
            # keep the events of the failing section
            keep, on = [], False
            for line in open(b["_trace"]):
                if line.startswith('{"e":"Reset"'):
                    on = json.loads(line).get("sec") == b["sec"]
                if on and len(keep) < 4000:
                    keep.append(line)
            open(os.path.join(d, "trace.ndjson"), "w").writelines(keep)
        elif "_prog" in b:
            from checks import csd
            open(os.path.join(d, "program.txt"), "w").write(csd.extract_program(b["_progfile"], b["_prog"]))
        V.violations.append(("%s: %s [%s] x%d" % (pid, b["why"], b["sec"], e["n"]), d, sig))
    shutil.rmtree(work, ignore_errors=True)
    coverage = {"states": states, "transitions": trans, "traces_validated_against_impl": instances + extra.get("dictionary_programs", 0),
                "component_instances_driven": instances,
                "samples": samples, "evaluations": events, "distinct_nontrivial": events,
                "rule": "every logged component call (with its inputs) is one validated event; inputs are enumerated exhaustively in the small scope stated in harness/comp/comp.cpp and sampled (seeded) beyond it",
                "events_validated": events, "small_scope_models": models, "rejections_for_this_property": len(allbad),
                "exhaustive": False}
    coverage.update(extra)
    rc = V.finish()
    vlib.write_evidence(pid, tier, "model_checking", coverage,
                        ["components are called through the interface the dictionaries use (protected members reached with -Dprotected=public on the harness side)",
                         "values wider than 31 bits travel as 16-bit limbs / bit lists",
                         "out-of-domain calls (select of rank 0, symbols outside the alphabet, bit vectors without a set bit for DArray/SDArray) are not made"],
                        time.time() - t0, len(V.violations), {"known_findings_hit": sorted(V.known)})
    return rc


def replay(pid, path):
    info = json.load(open(os.path.join(path, "replay.json")))
    if os.path.exists(os.path.join(path, "program.txt")):
        from checks import csd
        return csd.replay("C01", path)
    exe = vlib.build_harness("comp", COMP_SRCS, "plain")
    work = os.path.join(path, "re")
    shutil.rmtree(work, ignore_errors=True)
    os.makedirs(work)
    sec = info["record"]["sec"]
    what = {"vby": "vbyte", "log": "logseq", "dac": "dacvls", "cod": "codes", "tab": "tabledec", "bit": "bitseq", "wt-": "wt", "rep": "repair"}[sec[:3]]
    _w, bad, _n, _f, _i = trace_section(exe, what, work, "quick")
    same = [b for b in bad if b["p"] == pid and sec_class(b["sec"]) == sec_class(sec) and b["why"] == info["record"]["why"]]
    if same:
        print("VIOLATION property=%s replay=%s" % (pid, path))
        print("  ", {k: v for k, v in same[0].items() if not k.startswith("_")})
        return 1
    print("replay: the component section conforms on the current tree")
    return 0
