"""C10 - worker pool: every queued task runs exactly once; shutdown always completes.

Decided by (DESIGN 5/C10):
  A. TLC on WorkerPool.tla (L2, protocol Locked) refined to PoolAbs.tla (L1) with weak fairness:
     invariants, deadlock freedom, Termination, EveryQueuedTaskRuns, ShutdownCompletes; all
     interleavings for the configured workers x tasks x client patterns; per-action coverage.
  B. The real pool under the deterministic scheduler: bounded-preemption DFS over schedules;
     every execution validated by TLC against L1 (PoolAbsTrace: the property verdict) and against
     L2 (PoolTrace: conformance).  L2 divergence is not a violation.
  C. spec -> impl: random complete behaviours of L2 produced by TLC (-simulate) are forced on the
     real pool step by step; the scheduler reports a divergence if the named thread cannot take the
     step; the recorded trace is validated again.
  D. free-running stress executions validated against L1.
A violation is a *real execution* (its schedule is the replay artefact) that L1 rejects."""
import concurrent.futures as cf
import json, os, re, shutil, subprocess, time

import vlib

CLIENTS = ("P1", "P2", "P3")
POOL_SRCS = ["harness/sched/pool_main.cpp", "harness/sched/sched.cpp"]

# number of scheduler decisions (sync operations) each L2 action takes in the real code
OPS = {"Head1": 2, "Head2": 2, "Lock": 1, "Pred1": 2, "Pred2": 2, "Wait": 1, "Wake": 1, "Chk1": 2, "Chk2": 2,
       "BrkUnlock": 1, "Chk3": 2, "ContUnlock": 1, "Pop": 2, "Unlock": 1, "Notify": 1, "RunBegin": 0, "RunEnd": 0,
       "ExitN": 1, "TLockM": 1, "TCrit": 0, "TUnlockM": 1, "TNotify2": 1, "StopL": 1, "Stop": 2, "StopU": 1,
       "StopN": 1, "CNext": 0, "CLockM": 1, "CUnlockM": 1, "AddL": 1, "Add": 2, "AddU": 1, "AddN": 1,
       "CLockM2": 1, "CWait": 1, "CWake": 1, "Join": 1, "JoinEnd": 0}
L2_ACTIONS = sorted(OPS)


def cfgfile(name, text):
    d = os.path.join(vlib.CACHE, "cfg")
    os.makedirs(d, exist_ok=True)
    p = os.path.join(d, name)
    with open(p, "w") as fh:
        fh.write(text)
    return p


def design_cfg(nw, nt, client, locked, fair=True):
    return ("SPECIFICATION %s\nCONSTANTS NW = %d\nNT = %d\nClient = \"%s\"\nLocked = %s\nINVARIANT Safety\n"
            % ("FairSpec" if fair else "Spec", nw, nt, client, "TRUE" if locked else "FALSE")
            + ("PROPERTY Termination AbsSafe EveryQueuedTaskRuns ShutdownCompletes\n" if fair else "PROPERTY AbsSafe\n"))


def design_run(nw, nt, client, locked, tag):
    cfg = cfgfile("pool_%s_%d_%d_%s_%s.cfg" % (client, nw, nt, locked, tag), design_cfg(nw, nt, client, locked))
    r = vlib.tlc("PoolRefine", cfg, workers=4, coverage=True, timeout=1500, java_opts=["-Xmx6g"])
    return (nw, nt, client, locked), r


def trace_cfg(kind, nw, nt, client=None, locked=True):
    if kind == "L1":
        return "SPECIFICATION TSpec\nCONSTANTS NW = %d\nNT = %d\nCHECK_DEADLOCK FALSE\nPOSTCONDITION Consumed\n" % (nw, nt)
    return ("SPECIFICATION TSpec\nCONSTANTS NW = %d\nNT = %d\nClient = \"%s\"\nLocked = %s\nCHECK_DEADLOCK FALSE\n"
            "POSTCONDITION Consumed\n" % (nw, nt, client, "TRUE" if locked else "FALSE"))


def validate(kind, trace, nw, nt, client, locked=True, tag=""):
    """Run the trace spec over an ndjson file.  Returns (header, bad list)."""
    mod = "PoolAbsTrace" if kind == "L1" else "PoolTrace"
    cfg = cfgfile("pooltr_%s_%s_%d_%d_%s_%s.cfg" % (kind, client, nw, nt, locked, tag), trace_cfg(kind, nw, nt, client, locked))
    out = trace + ".%s%s.out" % (kind, "" if locked else "u")
    if os.path.exists(out):
        os.unlink(out)
    r = vlib.tlc(mod, cfg, workers=1, env={"TRACE": trace, "OUT": out}, timeout=1500, java_opts=["-Xmx6g"])
    if r.rc != 0 or not os.path.exists(out):
        # one retry (a rejection / failure is reported only if it repeats)
        r = vlib.tlc(mod, cfg, workers=1, env={"TRACE": trace, "OUT": out}, timeout=1500, java_opts=["-Xmx6g"], quiet=False)
        if r.rc != 0 or not os.path.exists(out):
            raise RuntimeError("trace validation failed to run (%s, rc=%s)" % (mod, r.rc))
    lines = [json.loads(x) for x in open(out) if x.strip()]
    return lines[0], lines[1:]


def split_runs(trace):
    """ndjson file -> {run number: (list of lines, schedule)}"""
    runs, cur, key = {}, None, None
    for line in open(trace):
        if line.startswith('{"e":"Reset"'):
            key = json.loads(line)["run"]
            cur = [line]
            runs[key] = [cur, ""]
        elif cur is not None:
            cur.append(line)
            if line.startswith('{"e":"End"'):
                runs[key][1] = json.loads(line).get("schedule", "")
    return runs


def behaviours(nw, nt, client, n, depth, seed):
    """n random complete behaviours of L2 (Locked) as lists of (action, thread)."""
    cfg = cfgfile("poolsim_%s_%d_%d.cfg" % (client, nw, nt),
                  "SPECIFICATION Spec\nCONSTANTS NW = %d\nNT = %d\nClient = \"%s\"\nLocked = TRUE\nINVARIANT NotFinished\n" % (nw, nt, client))
    r = vlib.tlc("WorkerPool", cfg, workers=1, simulate=n, depth=depth, seed_=seed, extra=["-continue"], timeout=600)
    if vlib.tlc_model_failure(r):
        raise RuntimeError("TLC simulate failed rc=%s" % r.rc)
    out, cur = [], None
    for line in r.out.split("\n"):
        m = re.match(r"State (\d+): <(\w+)(?:\((\d+)\))? line", line)
        if not m:
            continue
        if m.group(2) == "Init":
            cur = []
            out.append(cur)
            continue
        cur.append((m.group(2), int(m.group(3)) if m.group(3) else 0))
    return [b for b in out if b]


def to_schedule(beh, nw):
    """L2 behaviour -> thread id per scheduler decision (thread 0 = client, k = worker k)."""
    sched, started = [], set()
    for act, th in beh:
        t = 0 if (th == 0 or th == nw + 1) else th
        if t != 0 and t not in started:
            started.add(t)
            sched.append(t)          # the START grant of the worker thread
        sched += [t] * OPS[act]
    return sched


def run(pid, tier):
    t0 = time.time()
    V = vlib.Verdict(pid)
    thorough = tier == "thorough"
    seed = vlib.seed()
    exe = vlib.build_harness("pool", POOL_SRCS, "plain")
    work = os.path.join(vlib.WORK, "C10")
    shutil.rmtree(work, ignore_errors=True)
    os.makedirs(work)

    # ---- A. design level ------------------------------------------------------------------
    maxw, maxt = (3, 3) if thorough else (2, 2)
    jobs = []
    for cl in CLIENTS:
        for nw in range(1, maxw + 1):
            for nt in range(0, maxt + 1):
                if cl == "P3" and nt == 0:
                    continue
                jobs.append((nw, nt, cl, True))
    # P5 (one dependency between tasks, needs two workers): work conservation of the locked protocol
    jobs += [(2, 2, "P5", True), (2, 3, "P5", True)] + ([(3, 2, "P5", True)] if thorough else [])
    # the original (unlocked) protocol must still show its lost wake-up: keeps the model honest
    jobs += [(1, 1, "P1", False), (1, 0, "P1", False), (1, 1, "P2", False), (1, 1, "P3", False)]
    states = trans = 0
    cov = {a: 0 for a in L2_ACTIONS}
    design = []
    with cf.ThreadPoolExecutor(max_workers=4) as ex:
        for key, r in ex.map(lambda j: design_run(*j, tag=tier), jobs):
            nw, nt, cl, locked = key
            if vlib.tlc_model_failure(r):
                raise RuntimeError("TLC failed on design config %s" % (key,))
            if locked:
                states += r.distinct or 0
                trans += r.generated or 0
                for a, (_new, gen) in r.coverage.items():
                    if a in cov:
                        cov[a] += gen      # successor states generated by the action (TLC prints new:generated)
                if r.rc != 0:
                    raise RuntimeError("L2 (Locked) model violates a property for %s: rc=%s violated=%s deadlock=%s "
                                       "- the model no longer matches its intent" % (key, r.rc, r.violated, r.deadlock))
            elif not r.deadlock:
                raise RuntimeError("the Unlocked protocol no longer deadlocks in the model for %s" % (key,))
            design.append({"nw": nw, "nt": nt, "client": cl, "locked": locked, "distinct": r.distinct, "rc": r.rc})
    # ContUnlock (`if (queue.empty()) continue;`) is unreachable by design: the queue cannot become empty
    # between the wait predicate and the check while shared_mutex is held (TLC confirms: never enabled)
    untaken = [a for a, c in cov.items() if c == 0 and a != "ContUnlock"]
    if untaken:
        raise RuntimeError("vacuity: L2 actions never taken in any design config: %s" % untaken)
    vlib.log("design: %d configs, %d distinct states, untaken actions: %s" % (len(jobs), states, untaken))

    # ---- B. real pool under the scheduler: explore + validate --------------------------------
    if thorough:
        plan = [(1, 0, 3), (1, 1, 3), (1, 2, 3), (1, 3, 2), (2, 0, 2), (2, 1, 2), (2, 2, 2), (2, 3, 1), (3, 1, 1), (3, 2, 1), (3, 3, 1)]
        maxruns = 150000
    else:
        plan = [(1, 0, 2), (1, 1, 2), (1, 2, 2), (2, 1, 1), (2, 2, 1), (3, 1, 1)]
        maxruns = 6000
    items = [(nw, nt, cl, pb) for cl in CLIENTS for (nw, nt, pb) in plan if not (cl == "P3" and nt == 0)]
    items += [(2, 2, "P5", 2), (2, 3, "P5", 1), (3, 2, "P5", 1)] + ([(3, 3, "P5", 1), (2, 2, "P5", 3)] if thorough else [])
    executions = 0
    l2_div = 0
    l2_unlocked_conform = 0
    samples = []
    explored = []

    def explore_one(it):
        nw, nt, cl, pb = it
        tr = os.path.join(work, "ex_%s_%d_%d.ndjson" % (cl, nw, nt))
        r = subprocess.run([exe, "explore", str(nw), str(nt), cl, str(pb), str(maxruns), tr], capture_output=True, text=True, timeout=3000)
        if r.returncode != 0:
            raise RuntimeError("explorer failed: " + r.stderr[-500:])
        info = json.loads(r.stdout)
        h1, bad1 = validate("L1", tr, nw, nt, cl, tag="ex")
        if cl == "P5":
            # the dependency uses a mutex / condition variable of its own, which the L2 trace spec does not know: L1 verdict only
            return it, tr, info, h1, bad1, {"diverged": 0}, [], None
        h2, bad2 = validate("L2", tr, nw, nt, cl, True, tag="ex")
        hu = None
        if h2["diverged"]:
            hu, _ = validate("L2", tr, nw, nt, cl, False, tag="exu")
        return it, tr, info, h1, bad1, h2, bad2, hu

    with cf.ThreadPoolExecutor(max_workers=6) as ex:
        for it, tr, info, h1, bad1, h2, bad2, hu in ex.map(explore_one, items):
            nw, nt, cl, pb = it
            executions += info["runs"]
            explored.append({"nw": nw, "nt": nt, "client": cl, "preemption_bound": pb, "schedules": info["runs"],
                             "exhaustive_within_bound": not info["truncated"], "l1_rejected": h1["rejected"],
                             "l2_diverged": h2["diverged"]})
            l2_div += h2["diverged"]
            if hu is not None and hu["diverged"] == 0:
                l2_unlocked_conform += 1
            if h1["rejected"]:
                runs = split_runs(tr)
                for b in bad1[:3]:
                    lines, sched = runs[b["run"]]
                    d = vlib.replay_dir(pid, "%s_%d_%d_run%d" % (cl, nw, nt, b["run"]))
                    with open(os.path.join(d, "trace.ndjson"), "w") as fh:
                        fh.writelines(lines)
                    json.dump({"nw": nw, "nt": nt, "client": cl, "schedule": sched, "rejected_event": b,
                               "source_hash": vlib.src_hash()}, open(os.path.join(d, "replay.json"), "w"), indent=1)
                    V.reject({"client": cl, "nw": nw, "nt": nt, "event": b["e"]},
                             "L1 rejects real execution (%s, %d workers, %d tasks): event %s at line %d; schedule %s"
                             % (cl, nw, nt, b["e"], b["line"], sched), d)
            if len(samples) < 4:
                runs = split_runs(tr)
                k = sorted(runs)[len(runs) // 2]
                samples.append({"kind": "explored schedule (thread id per sync operation)", "client": cl, "nw": nw,
                                "nt": nt, "schedule": runs[k][1]})

    # ---- C. spec -> impl: force TLC behaviours on the real pool -----------------------------
    forced = forced_div = 0
    if l2_div == 0:
        nbeh = 60 if thorough else 12
        for cl in CLIENTS:
            for (nw, nt) in ((1, 1), (2, 2), (3, 2)) if thorough else ((2, 2),):
                behs = behaviours(nw, nt, cl, nbeh, 400, seed)
                tr = os.path.join(work, "forced_%s_%d_%d.ndjson" % (cl, nw, nt))
                with open(tr, "w") as out:
                    for i, b in enumerate(behs):
                        sched = to_schedule(b, nw)
                        one = tr + ".one"
                        r = subprocess.run([exe, "replay", str(nw), str(nt), cl, ",".join(map(str, sched)), one],
                                           capture_output=True, text=True, timeout=120)
                        info = json.loads(r.stdout)
                        forced += 1
                        forced_div += info["diverged"]
                        txt = open(one).read().replace('"run":0}', '"run":%d}' % i, 1)
                        out.write(txt)
                        if info["diverged"] and forced_div <= 3:
                            vlib.log("forced behaviour diverged: %s %d %d schedule %s" % (cl, nw, nt, sched))
                        if i == 0 and len(samples) < 8:
                            samples.append({"kind": "TLC behaviour forced on the real pool", "client": cl, "nw": nw, "nt": nt,
                                            "actions": ["%s(%d)" % a if a[1] else a[0] for a in b][:60]})
                h1, bad1 = validate("L1", tr, nw, nt, cl, tag="f")
                h2, bad2 = validate("L2", tr, nw, nt, cl, True, tag="f")
                executions += h1["runs"]
                l2_div += h2["diverged"]
                if h1["rejected"]:
                    runs = split_runs(tr)
                    for b in bad1[:2]:
                        lines, sched = runs[b["run"]]
                        d = vlib.replay_dir(pid, "forced_%s_%d_%d_run%d" % (cl, nw, nt, b["run"]))
                        open(os.path.join(d, "trace.ndjson"), "w").writelines(lines)
                        json.dump({"nw": nw, "nt": nt, "client": cl, "schedule": sched, "rejected_event": b,
                                   "source_hash": vlib.src_hash()}, open(os.path.join(d, "replay.json"), "w"), indent=1)
                        V.reject({"client": cl, "nw": nw, "nt": nt, "event": b["e"]},
                                 "L1 rejects forced execution: %s" % b, d)

    # ---- D. free-running stress -----------------------------------------------------------
    stress_cfgs = [(1, 0), (1, 7), (3, 100), (8, 50), (16, 200)] + ([(2, 1), (4, 4), (16, 16), (5, 200)] if thorough else [])
    reps = 40 if thorough else 6
    stress_runs = 0
    for cl in CLIENTS:
        for (nw, nt) in stress_cfgs:
            if cl == "P3" and nt == 0:
                continue
            tr = os.path.join(work, "stress_%s_%d_%d.ndjson" % (cl, nw, nt))
            subprocess.run([exe, "stress", str(nw), str(nt), cl, str(reps), tr], capture_output=True, text=True, timeout=3000)
            h1, bad1 = validate("L1", tr, nw, nt, cl, tag="s")
            stress_runs += h1["runs"]
            for b in bad1[:2]:
                d = vlib.replay_dir(pid, "stress_%s_%d_%d_run%d" % (cl, nw, nt, b["run"]))
                lines, _ = split_runs(tr)[b["run"]]
                open(os.path.join(d, "trace.ndjson"), "w").writelines(lines)
                json.dump({"nw": nw, "nt": nt, "client": cl, "mode": "stress", "rejected_event": b,
                           "source_hash": vlib.src_hash()}, open(os.path.join(d, "replay.json"), "w"), indent=1)
                V.reject({"client": cl, "nw": nw, "nt": nt, "event": b["e"], "mode": "stress"},
                         "L1 rejects free-running execution: %s" % b, d)
    for (nw, nt) in [(2, 2), (3, 10), (8, 50)]:
        tr = os.path.join(work, "stress_P5_%d_%d.ndjson" % (nw, nt))
        subprocess.run([exe, "stress", str(nw), str(nt), "P5", str(reps), tr], capture_output=True, text=True, timeout=3000)
        h1, bad1 = validate("L1", tr, nw, nt, "P5", tag="s5")
        stress_runs += h1["runs"]
        for b in bad1[:2]:
            d = vlib.replay_dir(pid, "stress_P5_%d_%d_run%d" % (nw, nt, b["run"]))
            lines, _ = split_runs(tr)[b["run"]]
            open(os.path.join(d, "trace.ndjson"), "w").writelines(lines)
            json.dump({"nw": nw, "nt": nt, "client": "P5", "mode": "stress", "rejected_event": b,
                       "source_hash": vlib.src_hash()}, open(os.path.join(d, "replay.json"), "w"), indent=1)
            V.reject({"client": "P5", "nw": nw, "nt": nt, "event": b["e"], "mode": "stress"},
                     "L1 rejects free-running execution with dependent tasks: %s" % b, d)
    # several pools alive at once (client P4): the pool under test must behave like P1 whatever happens to the others
    for (nw, nt) in [(1, 2), (2, 6), (4, 40)] + ([(3, 9), (8, 100)] if thorough else []):
        tr = os.path.join(work, "stress_P4_%d_%d.ndjson" % (nw, nt))
        subprocess.run([exe, "stress", str(nw), str(nt), "P4", str(reps), tr], capture_output=True, text=True, timeout=3000)
        h1, bad1 = validate("L1", tr, nw, nt, "P1", tag="s4")
        stress_runs += h1["runs"]
        for b in bad1[:2]:
            d = vlib.replay_dir(pid, "stress_P4_%d_%d_run%d" % (nw, nt, b["run"]))
            lines, _ = split_runs(tr)[b["run"]]
            open(os.path.join(d, "trace.ndjson"), "w").writelines(lines)
            json.dump({"nw": nw, "nt": nt, "client": "P4", "mode": "stress", "rejected_event": b,
                       "source_hash": vlib.src_hash()}, open(os.path.join(d, "replay.json"), "w"), indent=1)
            V.reject({"client": "P4", "nw": nw, "nt": nt, "event": b["e"], "mode": "stress"},
                     "L1 rejects free-running execution with two other pools alive: %s" % b, d)
    executions += stress_runs
    shutil.rmtree(work, ignore_errors=True)

    coverage = {
        "states": states, "transitions": trans,
        "traces_validated_against_impl": executions,
        "samples": samples,
        "design_configs": design,
        "l2_action_coverage_taken": cov, "l2_actions_never_taken": untaken,
        "explored": explored,
        "l2_conformance": ("every recorded execution is a behaviour of WorkerPool.tla (Locked protocol)" if l2_div == 0 else
                           "L2 conformance LOST on %d executions (%d configs conform to the Unlocked protocol instead); "
                           "verdict rests on L1 validation of the explored schedules only" % (l2_div, l2_unlocked_conform)),
        "forced_tlc_behaviours": forced, "forced_diverged": forced_div,
        "stress_executions": stress_runs,
        "exhaustive": False,
        "bounds": "TLC: workers 1..%d x tasks 0..%d x {P1,P2,P3}, all interleavings, weak fairness; real code: "
                  "all schedules within the preemption bound listed per config" % (maxw, maxt),
    }
    rc = V.finish()
    vlib.write_evidence(pid, tier, "model_checking", coverage,
                        ["pthread interposition: std::mutex/condition_variable/thread reach pthread_* through the PLT",
                         "no spurious wake-ups are modelled or produced (stricter for liveness)",
                         "scheduling points are pthread operations; code between them runs atomically (data accesses of the pool are all under its mutexes, see C11)",
                         "L1 liveness on real executions is observed as: no Deadlock / Timeout event and JoinReturned before End"],
                        time.time() - t0, len(V.violations),
                        {"known_findings_hit": sorted(V.known)})
    return rc


def replay(pid, path):
    """Re-execute a recorded schedule on the current tree and validate it against L1."""
    info = json.load(open(os.path.join(path, "replay.json")))
    exe = vlib.build_harness("pool", POOL_SRCS, "plain")
    nw, nt, cl = info["nw"], info["nt"], info["client"]
    tr = os.path.join(path, "replayed.ndjson")
    if info.get("mode") == "stress":
        subprocess.run([exe, "stress", str(nw), str(nt), cl, "50", tr], capture_output=True, text=True)
    else:
        subprocess.run([exe, "replay", str(nw), str(nt), cl, info["schedule"], tr], capture_output=True, text=True)
    h1, bad1 = validate("L1", tr, nw, nt, "P1" if cl == "P4" else cl, tag="rp")
    if h1["rejected"]:
        print("VIOLATION property=%s replay=%s" % (pid, path))
        print("  L1 rejects:", bad1[0])
        return 1
    print("replay: execution accepted by L1 on the current tree (%d run(s))" % h1["runs"])
    return 0
