"""C01-C08, C12-C16: the sequential API properties, decided by the API reference model.

Per property: (1) TLC checks the property's invariant on CSD.tla in a small scope (CSDMC);
(2) programs (input set x kind x parameters x call sequence) are executed on the real library by
harness/driver, one event per public call; (3) TLC evaluates CSDTrace.tla over every recorded
trace (monitor mode): each event must be an instance of the specification action with exactly the
logged response; non-conforming events come back as BAD records blamed on a property.
The driver computes no expected values; the only oracle is the specification."""
import concurrent.futures as cf
import hashlib, json, os, random, re, shutil, subprocess, sys, tempfile, time

import vlib

sys.path.insert(0, os.path.join(vlib.ROOT, "gen"))
import csdgen as G  # noqa: E402

DRIVER_SRCS = ["harness/driver/driver.cpp"]
FUNCTIONAL = {"C01", "C02", "C03", "C04", "C05", "C13", "C15", "C16", "C06", "C08", "C14"}
INV = {"C01": "Bijection RoundTrip", "C02": "NoFalsePositive", "C03": "RankNumbering", "C04": "PrefixInterval",
       "C05": "ItersSound", "C06": "ImagesDenote", "C07": "TypeOK", "C08": "ImagesDenote", "C12": "ParamIndependence",
       "C13": "ItersSound", "C14": "TypeOK", "C15": "TypeOK", "C16": "TypeOK"}


# ------------------------------------------------------------------------------ campaign
def run_driver(exe, progfile, tracefile, env, tmo):
    r = subprocess.run([exe, progfile, tracefile, str(tmo)], capture_output=True, text=True, env=env, timeout=7200)
    if r.returncode != 0:
        raise RuntimeError("driver failed: " + r.stderr[-500:])
    return json.loads(r.stdout)


_bad_re = re.compile(r'^<<"BAD", "(.*)">>$')


def run_tlc_trace(tracefile, timeout=3600):
    r = vlib.tlc("CSDTrace", "CSDTrace.cfg", workers=1, env={"TRACE": tracefile}, timeout=timeout, java_opts=["-Xmx3g", "-Xss16m"])
    if r.rc == 124 and _deadline[0] is not None and time.time() > _deadline[0]:
        raise BudgetExhausted(tracefile)
    if r.rc != 0:
        r = vlib.tlc("CSDTrace", "CSDTrace.cfg", workers=1, env={"TRACE": tracefile}, timeout=timeout, java_opts=["-Xmx3g", "-Xss16m"], quiet=False)
        if r.rc != 0:
            raise RuntimeError("CSDTrace failed to run on %s (rc=%s): a model failure, not a rejection" % (tracefile, r.rc))
    bad = []
    for line in r.out.split("\n"):
        m = _bad_re.match(line)
        if m:
            bad.append(json.loads(m.group(1).replace('\\"', '"').replace("\\\\", "\\")))
    return bad, r.distinct or 0


class BudgetExhausted(Exception):
    """a trace validation was still running when the tier's time budget (plus a grace period) ran out"""


BUDGET = {"quick": 1500, "thorough": int(os.environ.get("VERIF_THOROUGH_BUDGET_S", "1500"))}
_deadline = [None]


def set_deadline(tier):
    _deadline[0] = time.time() + BUDGET[tier]


def campaign(progs, variant, work, tag, tmo=10, extra_env=None):
    """Execute programs on the real library, validate the traces.  Returns (bad records, stats).
    Programs are dealt round-robin into shards of at most ~400 (one trace file / one TLC run each); a shard
    runs its driver and then its trace validation.  Shards that have not started when the time budget of the
    tier is used up are skipped and counted (stats['programs_skipped_for_budget']): the campaign always ends."""
    exe = vlib.build_harness("driver", DRIVER_SRCS, variant)
    nsh = max(1, min(16, len(progs) // 8 or 1))
    if len(progs) > 16 * 400:
        # large campaigns: at most ~400 programs and ~25 000 calls per shard (one trace file / one TLC run each)
        nsh = max((len(progs) + 399) // 400, (sum(len(p.lines) for p in progs) + 24999) // 25000)
    shards = [[] for _ in range(nsh)]
    for i, p in enumerate(progs):
        shards[i % nsh].append(p)
    env = dict(os.environ)
    if variant == "asan":
        env["ASAN_OPTIONS"] = "halt_on_error=0:detect_leaks=0:allocator_may_return_null=1:max_allocation_size_mb=4096"
    env.update(extra_env or {})
    files = []
    for i, sh in enumerate(shards):
        pf = os.path.join(work, "%s_%d.prog" % (tag, i))
        with open(pf, "w") as fh:
            for p in sh:
                fh.write(p.text())
        files.append((pf, os.path.join(work, "%s_%d.ndjson" % (tag, i)), len(sh)))
    stats = {"programs": 0, "crashed": 0, "timeout": 0, "events": 0, "programs_skipped_for_budget": 0}

    def one(f):
        if _deadline[0] is not None and time.time() > _deadline[0]:
            return None
        st = run_driver(exe, f[0], f[1], env, tmo)
        try:
            # a validation may use what is left of the budget plus ten minutes; after that the shard counts as skipped
            b, n = run_tlc_trace(f[1], 3600 if _deadline[0] is None else int(max(300, _deadline[0] - time.time() + 600)))
        except BudgetExhausted:
            return None
        if nsh > 16 and not b and not tag.startswith("C08"):
            os.unlink(f[1])                               # large campaigns keep only traces that carry rejections
        return st, b, n

    bad = []
    with cf.ThreadPoolExecutor(max_workers=12) as ex:
        for res, f in zip(ex.map(one, files), files):
            if res is None:
                stats["programs_skipped_for_budget"] += f[2]
                continue
            st, b, n = res
            for k in ("programs", "crashed", "timeout"):
                stats[k] += st[k]
            stats["events"] += max(0, n - 1)
            for x in b:
                x["_trace"] = f[1]
                x["_progfile"] = f[0]
            bad += b
    return bad, stats


def prog_fields(progid):
    """pid|kind|par|set|section|origin"""
    f = progid.split("|")
    f += [""] * (6 - len(f))
    return dict(focus=f[0], kind=f[1], par=f[2], set=f[3], section=f[4], origin=f[5])


SET_INFO = {}          # input set name -> length of its longest string (filled by input_sets)


def strings_class(setname):
    """how long the longest string of the input is: the granularity at which some recorded findings are stated"""
    m = SET_INFO.get(setname)
    if m is None:
        return "?"
    return "long255" if m >= 255 else "long128" if m >= 128 else "short"


def signature(b):
    pf = prog_fields(b["prog"])
    kind = b["kind"] if b["kind"] not in ("?", "") else pf["kind"]
    during = b.get("during", "")
    site = b.get("site", "")
    return {"kind": kind, "origin": b["origin"] if b["origin"] not in ("?", "") else pf["origin"], "ev": b["ev"], "why": b["why"],
            "site": site, "site_fn": site.split("@")[0], "cls": b.get("cls", ""), "op": during.split(" ")[0] if during else "", "p": b["p"],
            "set": pf["set"], "section": pf["section"], "par": pf["par"], "strings": strings_class(pf["set"])}


def extract_program(progfile, progid):
    out, on = [], False
    for line in open(progfile):
        if line.startswith("P "):
            on = line[2:].strip() == progid
        if on:
            out.append(line)
    return "".join(out)


def extract_trace(tracefile, progid):
    out, on = [], False
    key = '{"e":"Reset","prog":"%s"}' % progid
    for line in open(tracefile):
        if line.startswith('{"e":"Reset"'):
            on = line.strip() == key
        if on:
            out.append(line)
    return "".join(out)


# ------------------------------------------------------------------------------ program builders
def partag(par, kind):
    if kind in G.FC:
        return "b%d" % par["bucket"]
    if kind in G.HASH:
        return "o%d" % par["overhead"]
    if kind == "BLOCKS":
        return "o%d_c%d_t%d" % (par["overhead"], par["cut"], par["threads"])
    if kind == "FMINDEX":
        return "s%d_p%d_w%d" % (par["sparse"], par["bparam"], par["bwt"])
    return "-"


def obj_programs(focus, kind, par, setname, S, section, secfn, origins=("built", "loaded"), all_loads=False):
    """programs that run secfn(h, its) on a built object and on objects loaded from its image"""
    progs = []
    pt = partag(par, kind)
    SET_INFO.setdefault(setname, max(len(x) for x in S))
    if "built" in origins and kind not in G.SAVE_ONLY_WHEN_BUILT:
        p = G.Prog("%s|%s|%s|%s|%s|built" % (focus, kind, pt, setname, section))
        its = G.Its()
        p.lines = [G.build_line(1, kind, par, S)] + secfn(1, its) + ["D 1"]
        progs.append(p)
    if "loaded" in origins:
        lv = G.load_variants(kind)
        if not all_loads:
            lv = [lv[0]] + [v for v in lv[1:] if v[1] != 1][:2]
        for via, opt in lv:
            p = G.Prog("%s|%s|%s|%s|%s|loaded" % (focus, kind, pt + ("" if opt == 1 and via == lv[0][0] else "_%s%d" % (via, opt)), setname, section))
            its = G.Its()
            p.lines = [G.build_line(1, kind, par, S), "S 1 1", "CAT 1 1", G.load_line(via, kind, 1, 2, opt)] + secfn(2, its) + ["D 2", "D 1"]
            progs.append(p)
    return progs


def input_sets(rng, thorough, quick_small=60, small_maxn=4):
    """(name, S, is_small) - small-scope sets (exhaustive in thorough, sampled in quick) + named shapes"""
    small = list(G.small_sets(small_maxn))
    if not thorough:
        must = [s for s in small if len(s) == 1][:3]
        small = must + rng.sample(small, quick_small)
    else:
        # every set of one or two members (105), 150 sampled sets of three and 100 of four members
        small = ([s for s in small if len(s) <= 2] + rng.sample([s for s in small if len(s) == 3], 150)
                 + rng.sample([s for s in small if len(s) == 4], 100))
    out = [("s%d" % i, S, True) for i, S in enumerate(small)]
    sm3 = [list(c) for c in G.small_sets(2, alpha=(0x61, 0x62, 0xFE), maxlen=2)]
    sm3 = sm3 if thorough else rng.sample(sm3, 10)
    out += [("t%d" % i, S, True) for i, S in enumerate(sm3)]
    out += [(n, S, False) for n, S in G.shape_sets(rng, thorough).items()]
    for n, S, _small in out:
        SET_INFO[n] = max(len(x) for x in S)
    return out


def kinds_for(pid):
    ks = {"C03": G.RANK, "C04": G.PREFIX, "C05": ["FMINDEX", "XBW"]}.get(pid, G.KINDS)
    only = os.environ.get("VERIF_KINDS")          # development aid: restrict a campaign to some kinds
    return [k for k in ks if k in only.split(",")] if only else ks


def make_programs(pid, tier, rng):
    thorough = tier == "thorough"
    progs = []
    sets = input_sets(rng, thorough)
    lim = 200 if thorough else 24          # queries per section (the generators keep their fixed head and sample the rest)
    for kind in kinds_for(pid):
        for si, (name, S, small) in enumerate(sets):
            # large shapes are expensive for the Re-Pair / FM-index builders: thin them in quick
            if not thorough and not small and kind in ("FMINDEX", "XBW") and len(S) > 30:
                continue
            # substring results are validated member by member (IsSubstr over the whole set on every event): even the
            # thorough tier keeps C05 to inputs of at most 300 strings
            if pid == "C05" and len(S) > 300:
                continue
            # sets of thousands of strings: TLC pays for the size of the state on every event (~12 ms with 5 200 strings), so
            # they get a thin battery (no table scan, few queries) and, in the quick tier, only the properties they are for
            big = len(S) > 1000
            if big and not thorough and pid not in ("C01", "C02", "C06", "C07", "C15"):
                continue
            # (in the thorough tier the big sets are used everywhere, with a handful of queries per section: an iterator
            # over thousands of results is thousands of validated events of a state that holds thousands of strings)
            lim = (6 if big else 24 if len(S) > 100 else 200) if thorough else 24
            rich = thorough or (pid == "C12")
            grid = G.param_grid(kind, S, rich and (small or thorough))
            if not thorough and pid != "C12":
                # the quick tier takes one or two parameter vectors per input, rotating through the grid from input to
                # input so that every vector (e.g. the RRR bitmaps of FMINDEX) is used on some inputs
                k = si % len(grid)
                grid = grid[k:] + grid[:k]
                grid = grid[:2] if small else grid[:1]
            elif thorough and pid != "C12":
                # the thorough tier: the rich grid, up to four vectors per small input and three per shape, rotating
                k = si % len(grid)
                grid = grid[k:] + grid[:k]
                grid = grid[:4] if small else grid[:3]
            if pid == "C12" and kind in G.FC:
                grid = grid + [G.P(bucket=0), G.P(bucket=1)]          # clamp to 2
            for par in grid:
                sc = G.substr_capable(kind, par)
                if pid == "C01":
                    progs += obj_programs(pid, kind, par, name, S, "members", lambda h, its: G.sec_members(h, S, rng, 40))
                elif pid == "C02":
                    progs += obj_programs(pid, kind, par, name, S, "absent", lambda h, its: G.sec_absent(h, S, rng, lim))
                elif pid == "C03":
                    fn = (lambda h, its: (G.sec_members(h, S, rng, 40) if kind in G.ORDERED else []) + G.sec_rank(h, S, rng, 40))
                    progs += obj_programs(pid, kind, par, name, S, "rank", fn)
                elif pid == "C04":
                    progs += obj_programs(pid, kind, par, name, S, "prefix", lambda h, its: G.sec_prefix(h, S, its, rng, lim))
                elif pid == "C05":
                    if sc:
                        progs += obj_programs(pid, kind, par, name, S, "substr", lambda h, its: G.sec_substr(h, S, its, rng, lim))
                elif pid == "C13":
                    def fn(h, its, kind=kind, par=par, S=S, sc=sc, big=big):
                        o = G.sec_table(h, S, its) if kind != "XBW" and not big else []
                        if kind in G.PREFIX:
                            o += G.sec_prefix(h, S, its, rng, 6)
                        if sc:
                            o += G.sec_substr(h, S, its, rng, 6)
                        return o
                    progs += obj_programs(pid, kind, par, name, S, "iters", fn)
                elif pid == "C15":
                    progs += obj_programs(pid, kind, par, name, S, "meta", lambda h, its: G.sec_meta(h), all_loads=True)
                    if kind not in G.SAVE_ONLY_WHEN_BUILT:
                        # metadata must survive any number of save / load generations, not only the first
                        via, opt = G.load_variants(kind)[0]
                        p = G.Prog("C15|%s|%s|%s|generations|loaded" % (kind, partag(par, kind), name))
                        p.lines = [G.build_line(1, kind, par, S)] + G.sec_meta(1)
                        for g in (1, 2, 3):
                            p.lines += ["S %d %d" % (g, g), "CAT %d %d" % (g, g), G.load_line(via, kind, g, g + 1, opt)] + G.sec_meta(g + 1)
                        p.lines += ["D 4", "D 3", "D 2", "D 1"]
                        progs.append(p)
                elif pid == "C16":
                    progs += obj_programs(pid, kind, par, name, S, "unsupported",
                                          lambda h, its: G.sec_unsupported(h, kind, par, S, its) + G.sec_members(h, S, rng, 6))
                elif pid in ("C06", "C12", "C07"):
                    def fn(h, its, kind=kind, par=par, S=S, sc=sc, big=big):
                        o = G.sec_meta(h) + G.sec_members(h, S, rng, 12) + G.sec_absent(h, S, rng, 8)
                        if big:
                            return o
                        if kind in G.PREFIX:
                            o += G.sec_prefix(h, S, its, rng, 5)
                        if sc:
                            o += G.sec_substr(h, S, its, rng, 5)
                        if kind in G.RANK:
                            o += G.sec_rank(h, S, rng, 6)
                        if kind != "XBW":
                            o += G.sec_table(h, S, its)
                        return o
                    progs += obj_programs(pid, kind, par, name, S, "battery", fn, all_loads=(pid != "C07" and not big))
                    if pid == "C07" and not big:
                        progs += alias_programs(pid, kind, par, name, S, rng)
                        progs += [q for q in c08_programs(kind, par, name, S, rng) if "|scansave|" in q.pid]
                elif pid == "C08":
                    progs += c08_programs(kind, par, name, S, rng)
                elif pid == "C14":
                    progs += c14_programs(kind, par, name, S, rng, thorough)
                    if not big:
                        progs += alias_programs(pid, kind, par, name, S, rng)
    if pid == "C01":
        # a large text with geometric byte frequencies (codewords longer than the decoding table's chunk): every string
        # that contains a rare byte is located and extracted
        geo = G.geometric_set()
        rare_idx = [i + 1 for i, x in enumerate(geo) if any(c >= 75 for c in x)][:120]
        for kind, bucket in (("HTFC", 16), ("HTFC", 2), ("HTFC", 3), ("HASHHF", 16), ("PFC", 16), ("RPDAC", 16)):
            par = G.P(bucket=bucket, overhead=25)
            progs += obj_programs(pid, kind, par, "geometric", geo, "members",
                                  lambda h, its: G.sec_members(h, geo, rng, 10) + ["E %d %d" % (h, i) for i in rare_idx] + ["L %d %s" % (h, G.hx(geo[i - 1])) for i in rare_idx])
    if pid == "C06":
        progs += concat_programs(rng, thorough)
    if pid == "C16":
        progs += c16_loader_programs(rng, thorough)
    if pid == "C07":
        progs += c07_growth_programs(rng, thorough)
        progs += capacity_witnesses()[0]
    if pid in ("C14", "C07", "C06", "C08", "C16"):
        # histories generated by TLC from the specification itself (spec -> impl direction): random interleavings of
        # builds, queries, iterator steps, saves, loads through every loader / option (also of foreign images), destroys
        progs += tlc_programs(pid, 1500 if thorough else 250, vlib.seed() + int(pid[1:]))
    # one probe per kind that is only usable after load (recorded finding): queries on the built object
    if pid in ("C01", "C07"):
        for kind in G.SAVE_ONLY_WHEN_BUILT:
            S = [b"a", b"ab", b"b"]
            p = G.Prog("%s|%s|-|probe|members|built" % (pid, kind))
            p.lines = [G.build_line(1, kind, G.P(), S), "L 1 61"]
            progs.append(p)
    return progs


def c08_programs(kind, par, name, S, rng):
    pt = partag(par, kind)
    progs = []
    q = ["L 1 %s" % G.hx(S[0]), "E 1 1", "L 1 %s" % G.hx(b"zz"), "E 1 %d" % len(S)]
    usable = kind not in G.SAVE_ONLY_WHEN_BUILT
    # repeated saves interleaved with queries on the built object (two separate processes: the
    # second program repeats the first, so digests are also compared across processes)
    for rep in ("a", "b"):
        p = G.Prog("C08|%s|%s|%s|resave%s|built" % (kind, pt, name, rep))
        p.lines = [G.build_line(1, kind, par, S), "S 1 1"] + (q if usable else []) + ["S 1 2"] + (G.sec_members(1, S, rng, 6) if usable else []) + ["S 1 3", "D 1"]
        progs.append(p)
    # save in the middle of open scans: iterators opened before a save must deliver the same elements after it
    if usable and len(S) >= 2:
        p = G.Prog("C08|%s|%s|%s|scansave|built" % (kind, pt, name))
        p.lines = [G.build_line(1, kind, par, S)]
        if kind != "XBW":
            p.lines += ["ET 1 1", "SN 1"]
        if kind in G.PREFIX:
            p.lines += ["LP 1 2 %s" % G.hx(S[0][:1]), "IN 2", "EP 1 3 %s" % G.hx(S[0][:1]), "SN 3"]
        p.lines += ["S 1 1"]
        if kind != "XBW":
            p.lines += ["SD 1 %d" % (len(S) + 2), "CI 1"]
        if kind in G.PREFIX:
            p.lines += ["ID 2 %d" % (len(S) + 2), "CI 2", "SD 3 %d" % (len(S) + 2), "CI 3"]
        p.lines += ["S 1 2", "D 1"]
        progs.append(p)
    # two dictionaries loaded with the same hash representation, their saves interleaved: every save of an object must
    # write the bytes its first save wrote, whatever was saved in between
    if kind in G.OPT and len(S) >= 2:
        other = sorted(set(S) | {S[-1] + bytes([0x61 + k]) * (3 + k) for k in range(6)})
        for opt in (2, 3):
            p = G.Prog("C08|%s|%s_LK%d|%s|interleave|loaded" % (kind, pt, opt, name))
            p.lines = [G.build_line(1, kind, par, S), G.build_line(2, kind, par, other), "S 1 1", "S 2 2",
                       "CAT 1 1", G.load_line("LK", kind, 1, 3, opt), "CAT 2 2", G.load_line("LK", kind, 2, 4, opt),
                       "S 4 3", "S 3 4", "S 4 5", "S 3 6", "L 3 %s" % G.hx(S[0]), "L 4 %s" % G.hx(other[-1]), "D 4", "D 3", "D 2", "D 1"]
            progs.append(p)
    # re-save of a loaded object, then load the re-saved image and query it
    for via, opt in G.load_variants(kind)[:4]:
        p = G.Prog("C08|%s|%s_%s%d|%s|reload|loaded" % (kind, pt, via, opt, name))
        p.lines = [G.build_line(1, kind, par, S), "S 1 1", "CAT 1 1", G.load_line(via, kind, 1, 2, opt),
                   "L 2 %s" % G.hx(S[-1]), "S 2 2", "E 2 1", "S 2 3", "CAT 2 2", G.load_line(via, kind, 2, 3, opt), "N 3", "M 3"]
        p.lines += G.sec_members(3, S, rng, 8) + G.sec_absent(3, S, rng, 4) + ["D 3", "D 2", "D 1"]
        progs.append(p)
    return progs


def alias_programs(focus, kind, par, name, S, rng):
    """an object and the object loaded from its image are independent: destroying either one must leave the other
    fully usable (no shared tables, no process-wide state freed with the copy)"""
    pt = partag(par, kind)
    progs = []
    via, opt = G.load_variants(kind)[0]

    def battery(h, its):
        o = G.sec_meta(h) + G.sec_members(h, S, rng, 8) + G.sec_absent(h, S, rng, 3)
        if kind in G.PREFIX:
            o += G.sec_prefix(h, S, its, rng, 2)
        if G.substr_capable(kind, par):
            o += G.sec_substr(h, S, its, rng, 2)
        return o
    if kind not in G.SAVE_ONLY_WHEN_BUILT:
        p = G.Prog("%s|%s|%s|%s|destroycopy|built" % (focus, kind, pt, name))
        p.lines = [G.build_line(1, kind, par, S), "S 1 1", "CAT 1 1", G.load_line(via, kind, 1, 2, opt), "L 2 %s" % G.hx(S[0]), "D 2"] + battery(1, G.Its()) + ["D 1"]
        progs.append(p)
    p = G.Prog("%s|%s|%s|%s|destroyorig|loaded" % (focus, kind, pt, name))
    p.lines = [G.build_line(1, kind, par, S), "S 1 1", "CAT 1 1", G.load_line(via, kind, 1, 2, opt), "D 1"] + battery(2, G.Its()) + ["D 2"]
    progs.append(p)
    return progs


def c14_programs(kind, par, name, S, rng, thorough):
    """random histories: repeated and failed look-ups, several iterators drained in interleaved order,
    queries between next calls, the same battery before and after"""
    pt = partag(par, kind)
    progs = []
    usable_built = kind not in G.SAVE_ONLY_WHEN_BUILT
    for rep in range(2 if thorough else 1):
        for origin in ("built", "loaded"):
            if origin == "built" and not usable_built:
                continue
            p = G.Prog("C14|%s|%s|%s|hist%d|%s" % (kind, pt, name, rep, origin))
            h = 1
            p.lines = [G.build_line(1, kind, par, S)]
            if origin == "loaded":
                via, opt = G.load_variants(kind)[0]
                p.lines += ["S 1 1", "CAT 1 1", G.load_line(via, kind, 1, 2, opt)]
                h = 2
            its = G.Its()
            before = G.sec_members(h, S, rng, 5) + G.sec_absent(h, S, rng, 4)
            p.lines += before
            absent = G.absent_queries(S, rng, 10)
            open_its = []
            for step in range(30 if thorough else 18):
                c = rng.random()
                if c < 0.2:
                    p.lines.append("L %d %s" % (h, G.hx(rng.choice(S))))
                elif c < 0.4 and absent:
                    q = rng.choice(absent)
                    p.lines += ["L %d %s" % (h, G.hx(q))] * rng.choice((1, 2))
                elif c < 0.5:
                    p.lines.append("E %d %d" % (h, rng.randint(0, len(S) + 1)))
                elif c < 0.65 and kind in G.PREFIX:
                    it = its.new()
                    pat = rng.choice(G.prefix_patterns(S, rng, 8))
                    p.lines.append(("LP %d %d %s" if rng.random() < 0.5 else "EP %d %d %s") % (h, it, G.hx(pat)))
                    open_its.append((it, p.lines[-1][:2]))
                elif c < 0.72 and G.substr_capable(kind, par):
                    it = its.new()
                    pat = rng.choice(G.substr_patterns(S, rng, 8))
                    p.lines.append(("LS %d %d %s" if rng.random() < 0.5 else "ES %d %d %s") % (h, it, G.hx(pat)))
                    open_its.append((it, p.lines[-1][:2]))
                elif c < 0.78 and kind != "XBW":
                    it = its.new()
                    p.lines.append("ET %d %d" % (h, it))
                    open_its.append((it, "ET"))
                elif open_its:
                    it, o = rng.choice(open_its)
                    isid = o in ("LP", "LS")
                    if rng.random() < 0.25:
                        p.lines += ["%s %d %d" % ("ID" if isid else "SD", it, len(S) + 2), "CI %d" % it]
                        open_its.remove((it, o))
                    else:
                        # one protocol step: hasNext, and next only when the spec-side result is not exhausted
                        # (the driver cannot know; so use the drain form with cap 1 which checks hasNext first)
                        p.lines.append("%s %d 1" % ("ID" if isid else "SD", it))
            for it, o in open_its:
                p.lines += ["%s %d %d" % ("ID" if o in ("LP", "LS") else "SD", it, len(S) + 2), "CI %d" % it]
            p.lines += before
            progs.append(p)
    return progs


def tlc_programs(focus, n, seed, depth=24):
    """spec -> impl: random behaviours of the API specification (CSDGen.tla, `tlc -simulate`) turned into
    driver programs.  Every program is a behaviour of the specification, hence well formed."""
    cfg = os.path.join(vlib.CACHE, "cfg", "csdgen_%s.cfg" % focus)
    os.makedirs(os.path.dirname(cfg), exist_ok=True)
    open(cfg, "w").write(open(os.path.join(vlib.SPEC, "CSDGen.cfg")).read().replace("Depth = 24", "Depth = %d" % depth))
    r = vlib.tlc("CSDGen", cfg, workers=4, simulate=max(50, n // 2), depth=depth + 6, seed_=seed, timeout=900, java_opts=["-Xmx4g"])
    if vlib.tlc_model_failure(r):
        raise RuntimeError("CSDGen failed rc=%s" % r.rc)
    hists, seen = [], set()
    for line in r.out.split("\n"):
        if not line.startswith('<<"HIST"'):
            continue
        m = _bad_re.match(line.replace('<<"HIST"', '<<"BAD"', 1))
        if not m:
            continue
        h = json.loads(m.group(1).replace('\\"', '"'))
        key = json.dumps(h[:depth - 3])
        if key in seen:
            continue                 # walks that differ only in their last steps: keep one
        seen.add(key)
        hists.append(h)
    rnd = random.Random(seed)
    rnd.shuffle(hists)
    progs = []
    for hi, h in enumerate(hists[:n]):
        kinds = sorted({e["kind"] for e in h if e["op"] == "B"})
        p = G.Prog("%s|%s|-|tlc%d|tlchist|mixed" % (focus, "+".join(kinds) or "none", hi))
        st = 0
        for e in h:
            o = e["op"]
            if o == "B":
                p.lines.append(G.build_line(e["h"], e["kind"], e["par"], [bytes(x) for x in e["S"]]))
            elif o in ("N", "M", "D"):
                p.lines.append("%s %d" % (o, e["h"]))
            elif o == "S":
                p.lines.append("S %d %d" % (e["h"], e["img"]))
            elif o == "L":
                p.lines.append("L %d %s" % (e["h"], G.hx(bytes(e["q"]))))
            elif o in ("E", "LR", "ER"):
                p.lines.append("%s %d %d" % (o, e["h"], e["i"]))
            elif o in ("LP", "EP", "LS", "ES"):
                p.lines.append("%s %d %d %s" % (o, e["h"], e["it"], G.hx(bytes(e["q"]))))
            elif o == "ET":
                p.lines.append("ET %d %d" % (e["h"], e["it"]))
            elif o == "HN":
                p.lines.append("%s %d" % ("IH" if e["type"] == "id" else "SH", e["it"]))
            elif o == "NX":
                p.lines.append("%s %d" % ("IN" if e["type"] == "id" else "SN", e["it"]))
            elif o == "CI":
                p.lines.append("CI %d" % e["it"])
            elif o in ("LG", "LK"):
                st += 1
                p.lines.append("CAT %d %d" % (st, e["img"]))
                p.lines.append("LG %d %d %d" % (st, e["h"], e["opt"]) if o == "LG" else "LK %s %d %d %d" % (e["kind"], st, e["h"], e["opt"]))
        progs.append(p)
    return progs


def concat_programs(rng, thorough):
    """several images in one stream, read back by the kinds' own loaders"""
    progs = []
    S1 = [b"aa", b"ab", b"b"]
    S2 = [b"x", b"xy", b"xyz", b"y"]
    S3 = [b"m" * 5, b"n"]
    combos = [("PFC", "PFC", "PFC"), ("PFC", "HASHHF", "RPDAC"), ("HTFC", "HHTFC", "RPHTFC"), ("HASHRPF", "HASHUFFDAC", "HASHRPDAC"),
              ("RPFC", "FMINDEX", "XBW"), ("BLOCKS", "PFC", "BLOCKS"), ("XBW", "XBW", "PFC"), ("FMINDEX", "HASHHF", "FMINDEX"), ("RPDAC", "BLOCKS", "HASHRPF")]
    if thorough:
        combos += [tuple(rng.choice(G.KINDS) for _ in range(3)) for _ in range(40)]
    for ci, kinds in enumerate(combos):
        p = G.Prog("C06|%s|-|concat%d|concat|loaded" % ("+".join(kinds), ci))
        pars = [G.param_grid(k, S1, False)[0] for k in kinds]
        if kinds[1] == "FMINDEX" or kinds[0] == "FMINDEX":
            pars = [G.P(bwt=2) if k == "FMINDEX" else q for k, q in zip(kinds, pars)]
        Ss = [S1, S2, S3]
        for i, (k, par, S) in enumerate(zip(kinds, pars, Ss)):
            p.lines += [G.build_line(i + 1, k, par, S), "S %d %d" % (i + 1, i + 1)]
        p.lines.append("CAT 1 1 2 3")
        for i, (k, S) in enumerate(zip(kinds, Ss)):
            h = 10 + i
            p.lines.append(G.load_line("LK", k, 1, h, 1))
            p.lines += ["N %d" % h] + G.sec_members(h, S, rng, 4)
        progs.append(p)
    return progs


def c16_loader_programs(rng, thorough):
    progs = []
    S = [b"aa", b"ab", b"b"]
    # unknown type tags through the generic loader: exhaustive 16-bit range in thorough, sampled in quick
    known = {11, 114, 12, 124, 125, 211, 214, 221, 222, 223, 3, 4, 5}
    tags = set()
    for t in known:
        tags |= {t - 1, t + 1}
    tags |= {0, 1, 2, 6, 7, 10, 13, 100, 255, 256, 65535}
    tags |= set(rng.sample(range(65536), 3000 if thorough else 200))
    wide = [(1 << 31), (1 << 32) - 1, (1 << 16), (1 << 16) + 211, (211 << 16), (5 << 24)] + [rng.getrandbits(32) for _ in range(2000 if thorough else 100)]
    tags = sorted(t for t in tags if t not in known)
    alltags = [(t >> 16, t & 0xffff) for t in tags + [w for w in wide if (w & 0xffffffff) not in known]]
    for base in (["PFC", "HASHHF"] if not thorough else ["PFC", "HASHHF", "XBW", "RPDAC"]):
        for ci in range(0, len(alltags), 400):
            p = G.Prog("C16|%s|-|tags%d|loadtag|image" % (base, ci))
            p.lines = [G.build_line(1, base, G.param_grid(base, S, False)[0], S), "S 1 1"]
            p.lines += ["LT 1 %d %d" % (hi, lo) for hi, lo in alltags[ci:ci + 400]]
            progs.append(p)
    # every ordered pair (kind loader, other kind's image)
    for img_kind in G.KINDS:
        for ld_kind in G.KINDS:
            if ld_kind == img_kind:
                continue
            par = G.P(bwt=2) if img_kind == "FMINDEX" else G.param_grid(img_kind, S, False)[0]
            p = G.Prog("C16|%s|-|by_%s|crossload|image" % (img_kind, ld_kind))
            p.lines = [G.build_line(1, img_kind, par, S), "S 1 1", "CAT 1 1", G.load_line("LK", ld_kind, 1, 2, 1)]
            if ld_kind in ("HASHHF", "HASHRPF", "HASHRPDAC", "BLOCKS"):        # loaders that take an option: every value
                for k, opt in enumerate((2, 3)):
                    p.lines += ["CAT %d 1" % (10 + k), G.load_line("LK", ld_kind, 10 + k, 20 + k, opt)]
            # the right loader still works on the same image afterwards
            p.lines += ["CAT 2 1", G.load_line("LK", img_kind, 2, 3, 1)] + G.sec_members(3, S, rng, 3)
            progs.append(p)
    return progs


def capacity_witnesses():
    """Capacity.tla with the ORIGINAL guard (GuardExtra = 0) has a counterexample: the distance
    reserved - used before the bad append and the (len, lcp) of the appended string.  Scaled to the
    library's own constant (MEMALLOC * bucketsize = 32768 * 2) it gives an input on which the original
    guard overflows by one byte; it is kept as a regression input (the repaired guard must hold on it)."""
    cfg = os.path.join(vlib.CACHE, "cfg", "capacity_orig.cfg")
    os.makedirs(os.path.dirname(cfg), exist_ok=True)
    open(cfg, "w").write("SPECIFICATION Spec\nCONSTANTS R0 = 8\nBucket = 2\nMaxLen = 4\nMaxStrings = 6\nGuardExtra = 0\nINVARIANT WriteFits\nCHECK_DEADLOCK FALSE\n")
    r = vlib.tlc("Capacity", cfg, workers=2, timeout=600)
    if r.violated != "WriteFits":
        raise RuntimeError("vacuity: Capacity.tla no longer refutes the original guard")
    m = re.findall(r"bad = <<(\d+), (\d+), (\d+), (\d+)>>", r.out)
    dist, ln, lcp, header = map(int, m[-1])
    cfg2 = os.path.join(vlib.CACHE, "cfg", "capacity_fixed.cfg")
    open(cfg2, "w").write("SPECIFICATION Spec\nCONSTANTS R0 = 8\nBucket = 2\nMaxLen = 5\nMaxStrings = 7\nGuardExtra = 2\nINVARIANT WriteFits\nCHECK_DEADLOCK FALSE\n")
    f = vlib.tlc("Capacity", cfg2, workers=4, timeout=900)
    if f.rc != 0:
        raise RuntimeError("Capacity.tla: the repaired guard does not keep WriteFits (rc=%s)" % f.rc)
    progs = []
    if (dist, ln, lcp, header) != (2, 1, 0, 0):
        raise RuntimeError("Capacity.tla counterexample changed shape: %s" % ((dist, ln, lcp, header),))
    # distance 2 before an internal one-byte string without common prefix, at the library's own reservation
    S = G.pfc_capacity_witness(32768 * 2, 2)
    for kind in G.FC:
        p = G.Prog("C07|%s|b2|capwitness|capacity|built" % kind)
        p.lines = [G.build_line(1, kind, G.P(bucket=2), S), "E 1 1", "E 1 %d" % len(S), "L 1 7a", "S 1 1", "CAT 1 1",
                   G.load_line("LK", kind, 1, 2, 1), "E 2 %d" % len(S), "D 2", "D 1"]
        progs.append(p)
    return progs, {"capacity_model_states": f.distinct, "capacity_counterexample_original_guard": [dist, ln, lcp, header]}


def c07_growth_programs(rng, thorough):
    """buffer-growth shapes: MEMALLOC lowered through the hook so that every constructor buffer is
    reallocated several times (shapes that overflow are then confirmed on the unmodified constant)"""
    progs = []
    shapes = {
        "len1": sorted(set(bytes([c]) for c in range(2, 120))),
        "len1lcp0": sorted(set(bytes([c]) for c in range(40, 250, 3))),
        "long": G.rnd_set(rng, 12, 150, 300, b"", b"abc"),
        "mixed": sorted(set(G.rnd_set(rng, 30, 1, 3, b"", b"abcdef") + G.rnd_set(rng, 10, 60, 90, b"", b"ab"))),
        "incr": [b"a" * k for k in range(1, 60)],
    }
    if thorough:
        shapes["rand300"] = G.rnd_set(rng, 300, 1, 40)
    # inputs larger than the initial reservation (MEMALLOC * bucketsize = 65536 bytes for bucket size 2,
    # 32768 for HASHHF): the buffers are reallocated with the library's own constant
    big = {"big80k": G.rnd_set(rng, 5200, 4, 24, b"", b"abcdefghijklmnop"),
           "big_short": G.rnd_set(rng, 9000, 1, 3, b"", bytes(range(40, 120))) + [b"zz" + bytes([c]) * 70000 for c in (65,)]}
    big["big_short"] = sorted(big["big_short"])
    if thorough:
        big["big200k"] = G.rnd_set(rng, 9000, 8, 36, b"", b"abcdefgh")
    for kind in G.FC + ["HASHHF"]:
        for sname, S in big.items():
            p = G.Prog("C07|%s|b2|%s|growthbig|built" % (kind, sname))
            p.lines = [G.build_line(1, kind, G.P(bucket=2, overhead=25), S)] + G.sec_members(1, S, rng, 6) + ["S 1 1", "CAT 1 1",
                       G.load_line("LK", kind, 1, 2, 1)] + G.sec_members(2, S, rng, 4) + ["D 2", "D 1"]
            progs.append(p)
    for kind in G.FC + ["HASHHF"]:
        for sname, S in shapes.items():
            for ma in (1, 2, 16, 64) if thorough else (1, 16):
                for b in ((2, 3, 8) if thorough else (2,)):
                    par = G.P(bucket=b, overhead=25)
                    p = G.Prog("C07|%s|b%d_ma%d|%s|growth|built" % (kind, b, ma, sname))
                    its = G.Its()
                    p.lines = ["MA %d" % ma, G.build_line(1, kind, par, S)] + G.sec_members(1, S, rng, 8) + ["S 1 1", "CAT 1 1",
                               G.load_line("LK", kind, 1, 2, 1)] + G.sec_members(2, S, rng, 4) + ["D 2", "D 1"]
                    progs.append(p)
    return progs


# ------------------------------------------------------------------------------ the check
def relevant(pid, b, focus_faults=True):
    """is BAD record b a rejection for property pid?"""
    if b["p"] == pid:
        return True
    # a member that is not found / not returned also breaks the rank numbering of an order-preserving kind
    if pid == "C03" and b["p"] == "C01" and (b.get("kind") in G.ORDERED or prog_fields(b["prog"])["kind"] in G.ORDERED):
        return True
    if b["p"] == "HARNESS":
        raise RuntimeError("harness produced an input outside the validity domain: %s" % b)
    if b["ev"] in ("crash", "timeout"):
        return True            # every call of a campaign belongs to its property: not returning violates it
    if b["ev"] == "memerr":
        if pid == "C16":                        # "fails safe": a memory error inside an operation the kind does not provide
            return (b.get("during") or "").split(" ")[0] in ("LP", "EP", "LS", "ES", "LR", "ER", "ET", "LG", "LK", "LT")
        return pid in ("C07", "C02", "C04")     # the properties that speak about memory
    return False


def design_run(pid, tier):
    cfgname = "CSDMCq.cfg" if tier == "quick" else "CSDMC.cfg"
    txt = open(os.path.join(vlib.SPEC, cfgname)).read().replace("INVARIANT Inv", "INVARIANT " + INV[pid])
    cfg = os.path.join(vlib.CACHE, "cfg", "csdmc_%s_%s.cfg" % (pid, tier))
    os.makedirs(os.path.dirname(cfg), exist_ok=True)
    open(cfg, "w").write(txt)
    r = vlib.tlc("CSDMC", cfg, workers=8, timeout=3000, java_opts=["-Xmx12g"])
    if r.rc != 0:
        raise RuntimeError("CSD small-scope model check failed for %s: rc=%s violated=%s" % (pid, r.rc, r.violated))
    if pid in ("C01", "C02", "C03", "C04", "C07", "C13"):
        # mechanism model: front-coding layout, locate / extract / locatePrefix transcribed, every read bounds-checked
        n = 4 if tier == "quick" else 5
        body = "SPECIFICATION Spec\nCONSTANTS Sigma = {97, 98}\nMaxLen = 3\nMaxN = %d\nBuckets = {2, 3, 4}\nFixed = %s\nINVARIANT %s\nCHECK_DEADLOCK FALSE\n"
        c1 = os.path.join(vlib.CACHE, "cfg", "fc_%s_%s.cfg" % (pid, tier))
        open(c1, "w").write(body % (n, "TRUE", "Inv2"))
        f = vlib.tlc("FrontCoding", c1, workers=8, timeout=3000, java_opts=["-Xmx12g"])
        if f.rc != 0:
            raise RuntimeError("FrontCoding.tla (code as fixed) violates RangeOK/NoOOB: rc=%s violated=%s" % (f.rc, f.violated))
        c2 = os.path.join(vlib.CACHE, "cfg", "fc_%s_%s_orig.cfg" % (pid, tier))
        open(c2, "w").write(body % (2, "FALSE", "Inv"))
        g = vlib.tlc("FrontCoding", c2, workers=4, timeout=600)
        if g.violated != "Inv":
            raise RuntimeError("vacuity: FrontCoding.tla no longer flags the original searchPrefix slip")
        r["distinct"] = (r.distinct or 0) + (f.distinct or 0)
        r["generated"] = (r.generated or 0) + (f.generated or 0)
        r["frontcoding_states"] = f.distinct
        c3 = os.path.join(vlib.CACHE, "cfg", "fc_%s_%s_emit.cfg" % (pid, tier))
        open(c3, "w").write(body % (3, "TRUE", "EmitOK"))
        e = vlib.tlc("FrontCodingEmit", c3, workers=4, timeout=1200)
        if e.rc != 0:
            raise RuntimeError("FrontCodingEmit.tla failed: rc=%s" % e.rc)
        r["pfc_images"] = [json.loads(m.replace('\\"', '"')) for m in re.findall(r'^<<"PFCIMG", "(.*)">>$', e.out, re.M)]
    if pid in ("C05", "C04", "C03"):
        # mechanism model of the FM-index kind: suffix array, BWT, backward search, LF walk, sampling, ID arithmetic
        cfgm = os.path.join(vlib.CACHE, "cfg", "fmindexspec_%s_%s.cfg" % (pid, tier))
        open(cfgm, "w").write("SPECIFICATION Spec\nCONSTANTS Sigma = {97, 98}\nMaxLen = %d\nMaxN = 3\nSteps = {1, 2, 3}\nINVARIANT Inv\nCHECK_DEADLOCK FALSE\n" % (3 if tier == "thorough" else 2))
        m = vlib.tlc("FMIndexSpec", cfgm, workers=8, timeout=3000, java_opts=["-Xmx8g"])
        if m.rc != 0:
            raise RuntimeError("FMIndexSpec.tla failed: rc=%s violated=%s" % (m.rc, m.violated))
        r["distinct"] = (r.distinct or 0) + (m.distinct or 0)
        r["generated"] = (r.generated or 0) + (m.generated or 0)
        r["fmindexspec_states"] = m.distinct
    if pid == "C07":
        # unbounded companion of Capacity.tla: the arithmetic core of WriteFits proved by TLAPS for all lengths
        r["tlaps_obligations_proved"] = vlib.tlaps("CapacityProof")
    if pid == "C06":
        # word counts of bitmaps saved word by word (saver and loader formulas, where they differ), for all lengths
        r["tlaps_obligations_proved"] = vlib.tlaps("LayoutProofs")
    if pid in ("C06", "C08"):
        # the three representations of the hash tables (load options 1..3) and the image they are saved to
        body = "SPECIFICATION Spec\nCONSTANTS MaxCells = %d\nMaxOff = %d\nFixed = %s\nINVARIANT Inv\nCHECK_DEADLOCK FALSE\n"
        ch = os.path.join(vlib.CACHE, "cfg", "hashcompact_%s_%s.cfg" % (pid, tier))
        open(ch, "w").write(body % ((6, 6, "TRUE") if tier == "thorough" else (5, 5, "TRUE")))
        hcm = vlib.tlc("HashCompact", ch, workers=4, timeout=1800, java_opts=["-Xmx6g"])
        if hcm.rc != 0:
            raise RuntimeError("HashCompact.tla failed: rc=%s violated=%s" % (hcm.rc, hcm.violated))
        ch2 = os.path.join(vlib.CACHE, "cfg", "hashcompact_%s_orig.cfg" % pid)
        open(ch2, "w").write(body % (4, 4, "FALSE"))
        hc0 = vlib.tlc("HashCompact", ch2, workers=2, timeout=600)
        if hc0.violated != "Inv":
            raise RuntimeError("vacuity: HashCompact.tla no longer flags the original save of the compact representations")
        r["distinct"] = (r.distinct or 0) + (hcm.distinct or 0)
        r["generated"] = (r.generated or 0) + (hcm.generated or 0)
        r["hashcompact_states"] = hcm.distinct
    if pid in XBW_MODEL_PIDS:
        # mechanism model of the XBW kind: double-rooted trie, node order, alpha / last / A arrays, subPathSearch,
        # getChildren / getParent / idToStr, breadth-first ID iterators; Emit prints the arrays per member set
        cfgx = os.path.join(vlib.CACHE, "cfg", "xbwspec_%s_%s.cfg" % (pid, tier))
        open(cfgx, "w").write("SPECIFICATION Spec\nCONSTANTS Sigma = {2, 3}\nMaxLen = 3\nMaxN = %d\nEmit = TRUE\nFixed = TRUE\nINVARIANT Inv\nINVARIANT EmitOK\nCHECK_DEADLOCK FALSE\n" % (3 if tier == "thorough" else 2))
        x = vlib.tlc("XBWSpec", cfgx, workers=8, timeout=3000, java_opts=["-Xmx8g"])
        if x.rc != 0:
            raise RuntimeError("XBWSpec.tla failed: rc=%s violated=%s" % (x.rc, x.violated))
        r["distinct"] = (r.distinct or 0) + (x.distinct or 0)
        r["generated"] = (r.generated or 0) + (x.generated or 0)
        r["xbwspec_states"] = x.distinct
        r["xbw_images"] = [json.loads(m.replace('\\"', '"')) for m in re.findall(r'^<<"XBWIMG", "(.*)">>$', x.out, re.M)]
    if pid in ("C01", "C02", "C12"):
        # mechanism model of the hash kinds: double-hash probing with arbitrary hash functions
        h = vlib.tlc("HashProbe", "HashProbe.cfg" if tier == "quick" else "HashProbe3.cfg", workers=8, timeout=3000, java_opts=["-Xmx12g"])
        if h.rc != 0:
            raise RuntimeError("HashProbe.tla failed: rc=%s violated=%s" % (h.rc, h.violated))
        hp = vlib.tlc("HashProbe", "HashProbePrime.cfg", workers=2, timeout=600)
        if hp.rc != 0:
            raise RuntimeError("HashProbe.tla: transcribed nearest_prime violates its contract")
        hc = vlib.tlc("HashProbe", "HashProbeComposite.cfg", workers=4, timeout=600)
        if hc.violated != "AnySizeCorrect":
            raise RuntimeError("vacuity: HashProbe.tla accepts a composite table size")
        r["distinct"] = (r.distinct or 0) + (h.distinct or 0)
        r["generated"] = (r.generated or 0) + (h.generated or 0)
        r["hashprobe_states"] = h.distinct
    return r


XBW_MODEL_PIDS = ("C01", "C02", "C04", "C05", "C06")


def xbw_image_binding(work, images):
    """XBWSpec.tla <-> StringDictionaryXBW(IteratorDictString*): for every member set TLC enumerated, the real
    constructor builds the dictionary, saves it, and the saved image is decoded and compared field by field
    with the arrays the model computed (len, mapping, alpha, last, A, elements, maxlength).  Returns
    (sets compared, list of differences).  A difference means the model no longer describes the constructor:
    it is reported as model drift (evidence + a NOTE line), never as a violation - the trace checks decide."""
    import struct
    exe = vlib.build_harness("driver", DRIVER_SRCS, "plain")
    par = G.param_grid("XBW", [b"a"], False)[0]
    pf = os.path.join(work, "xbwbind.prog")
    with open(pf, "w") as fh:
        for i, im in enumerate(images):
            S = sorted(bytes(x) for x in im["S"])
            pr = G.Prog("XBWBIND|XBW|-|m%d|image|built" % i)
            pr.lines = [G.build_line(1, "XBW", par, S), "S 1 1", "DUMP 1", "D 1"]
            fh.write(pr.text())
    tr = os.path.join(work, "xbwbind.ndjson")
    run_driver(exe, pf, tr, dict(os.environ), 10)
    got = []
    for line in open(tr):
        if line.startswith('{"e":"Image"'):
            got.append(bytes.fromhex(json.loads(line)["hex"]))
    diffs = []
    if len(got) != len(images):
        return len(got), ["%d of %d member sets produced an image" % (len(got), len(images))]
    for im, raw in zip(images, got):
        S = sorted(bytes(x) for x in im["S"])
        n = im["len"]
        try:
            typ, elements, maxlength, ln = struct.unpack_from("<IQII", raw, 0)
            off = 20
            mapping = struct.unpack_from("<257I", raw, off); off += 257 * 4
            alpha = list(struct.unpack_from("<%dI" % ln, raw, off)); off += ln * 4
            lw = struct.unpack_from("<%dI" % (ln // 32 + 1), raw, off); off += (ln // 32 + 1) * 4
            aw = struct.unpack_from("<%dI" % (ln // 32 + 2), raw, off); off += (ln // 32 + 2) * 4
        except struct.error as e:
            diffs.append("%s: image too short (%s)" % (S, e))
            continue
        bits = lambda ws: sorted(w * 32 + b for w, x in enumerate(ws) for b in range(32) if x >> b & 1)
        want_map = [0] * 257
        for c, m in im["map"]:
            want_map[c] = m
        want_map[256] = want_map[255] + 1
        exp = {"len": n, "elements": len(S), "maxlength": max(len(x) for x in S) + 1, "mapping": want_map, "alpha": list(im["alpha"]),
               "last": sorted(im["last"]), "A": sorted(im["A"]), "size": off}
        act = {"len": ln, "elements": elements, "maxlength": maxlength, "mapping": list(mapping), "alpha": alpha, "last": bits(lw), "A": bits(aw), "size": len(raw)}
        for k in exp:
            if exp[k] != act[k]:
                diffs.append("%s: %s is %s in the image, %s in XBWSpec" % ([x.hex() for x in S], k, act[k], exp[k]))
                break
    return len(got), diffs


def pfc_image_binding(work, images):
    """FrontCoding.tla <-> StringDictionaryPFC(it, bucketsize): for every (member set, bucket size) TLC
    enumerated the real constructor builds the dictionary and saves it; the image's text and its bucket
    offsets (LogSequence) are decoded and compared with the model's layout.  Differences are model drift
    (NOTE + evidence), never a violation."""
    import struct
    exe = vlib.build_harness("driver", DRIVER_SRCS, "plain")
    base = G.param_grid("PFC", [b"a"], False)[0]
    pf = os.path.join(work, "pfcbind.prog")
    with open(pf, "w") as fh:
        for i, im in enumerate(images):
            S = [bytes(x) for x in im["S"]]
            pr = G.Prog("PFCBIND|PFC|b%d|m%d|image|built" % (im["b"], i))
            pr.lines = [G.build_line(1, "PFC", dict(base, bucket=im["b"]), S), "S 1 1", "DUMP 1", "D 1"]
            fh.write(pr.text())
    tr = os.path.join(work, "pfcbind.ndjson")
    run_driver(exe, pf, tr, dict(os.environ), 10)
    got = [bytes.fromhex(json.loads(line)["hex"]) for line in open(tr) if line.startswith('{"e":"Image"')]
    if len(got) != len(images):
        return len(got), ["%d of %d (member set, bucket) pairs produced an image" % (len(got), len(images))]
    diffs = []
    for im, raw in zip(images, got):
        S = [bytes(x) for x in im["S"]]
        try:
            typ, elements, maxlength, buckets, bucketsize, nbytes = struct.unpack_from("<IQIIIQ", raw, 0)
            text = list(raw[32:32 + nbytes])
            off = 32 + nbytes
            numbits = raw[off]
            numentries = struct.unpack_from("<Q", raw, off + 1)[0]
            arr = int.from_bytes(raw[off + 9:], "little")
            bl = [(arr >> (i * numbits)) & ((1 << numbits) - 1) for i in range(numentries)]
        except (struct.error, IndexError) as e:
            diffs.append("%s bucket %d: image too short (%s)" % (S, im["b"], e))
            continue
        exp = {"elements": len(S), "bucketsize": im["b"], "buckets": len(im["bl"]), "text": list(im["text"]), "offsets": [0] + list(im["bl"]) + [len(im["text"])]}
        act = {"elements": elements, "bucketsize": bucketsize, "buckets": buckets, "text": text, "offsets": bl}
        for k in exp:
            if exp[k] != act[k]:
                diffs.append("%s bucket %d: %s is %s in the image, %s in FrontCoding.tla" % ([x.hex() for x in S], im["b"], k, act[k], exp[k]))
                break
    return len(got), diffs


def hashutil_binding(pid, work, tier):
    """nearest_prime() of the real library against its transcription (Primes.tla) - the table size every
    hash kind depends on."""
    from checks import comp
    exe = vlib.build_harness("comp", comp.COMP_SRCS, "plain")
    _w, bad, nev, _f, _i = comp.trace_section(exe, "hashutil", work, tier)
    out = []
    for b in bad:
        out.append({"l": b["l"], "prog": "%s|HASH|-|nearest_prime|hashutil|built" % pid, "focus": "", "p": pid, "why": b["why"], "ev": b["ev"],
                    "kind": "HASH", "origin": "built", "site": "", "cls": "", "during": ""})
    return out, nev


def run(pid, tier):
    t0 = time.time()
    V = vlib.Verdict(pid)
    rng = random.Random(vlib.seed() * 7919 + int(pid[1:]))
    work = os.path.join(vlib.WORK, pid)
    shutil.rmtree(work, ignore_errors=True)
    os.makedirs(work)
    set_deadline(tier)
    with cf.ThreadPoolExecutor(max_workers=1) as bg:
        fut = bg.submit(design_run, pid, tier)
        progs = make_programs(pid, tier, rng)
        variant = "asan" if pid == "C07" else "plain"
        tmo = 10 if tier == "thorough" else 4
        bad, stats = campaign(progs, variant, work, pid, tmo=tmo)
        extra = {}
        bad, extra["timeouts_not_repeated"] = confirm_timeouts(bad, work, variant, pid)
        if pid in ("C02", "C04", "C16"):
            # "without touching memory outside the dictionary" / "fails safe": the same programs on the ASan variant
            sub = [p for i, p in enumerate(progs) if i % (1 if tier == "thorough" else 3) == 0]
            bad2, st2 = campaign(sub, "asan", work, pid + "asan", tmo=tmo)
            bad += [b for b in bad2 if b["ev"] == "memerr"]
            extra["asan_programs"] = st2["programs"]
        if pid == "C08":
            # uninitialised bytes reaching an image show up as different digests under different malloc fills
            sub = [p for p in progs if "resave" in p.pid]
            for fill in ("85", "170"):
                b3, st3 = campaign(sub, "plain", work, pid + "perturb" + fill, extra_env={"MALLOC_PERTURB_": fill})
                bad += b3
                extra["perturb_%s_programs" % fill] = st3["programs"]
            bad += cross_process_digests(work, pid)
        if pid in ("C01", "C02", "C12"):
            hb, hn = hashutil_binding(pid, work, tier)
            bad += hb
            extra["nearest_prime_calls_validated"] = hn
        design = fut.result()
        if design.get("tlaps_obligations_proved"):
            extra["tlaps_obligations_proved"] = design["tlaps_obligations_proved"]
        if design.get("pfc_images"):
            nb, drift = pfc_image_binding(work, design["pfc_images"])
            extra["pfc_images_compared_with_model"] = nb
            extra["frontcoding_model_bound"] = not drift
            if drift:
                extra["frontcoding_model_drift"] = drift[:5]
                print("NOTE: FrontCoding.tla no longer describes the PFC constructor's layout (%d difference(s), first: %s); its verdict is not claimed for this tree, the trace checks decide" % (len(drift), drift[0]))
        if pid in XBW_MODEL_PIDS and design.get("xbw_images"):
            nb, drift = xbw_image_binding(work, design["xbw_images"])
            extra["xbwspec_states"] = design.get("xbwspec_states")
            extra["xbw_images_compared_with_model"] = nb
            extra["xbw_model_bound"] = not drift
            if drift:
                extra["xbw_model_drift"] = drift[:5]
                print("NOTE: XBWSpec.tla no longer describes the XBW constructor (%d difference(s), first: %s); its verdict is not claimed for this tree, the trace checks decide" % (len(drift), drift[0]))

    rel = [b for b in bad if relevant(pid, b)]
    if pid == "C12":
        rel = c12_disagreements(bad, progs)
    if pid == "C06":
        rel += c06_disagreements(bad)
    if pid == "C08":
        # handle 3 of a 'reload' program is the object loaded from a re-saved image: it must answer like the original
        for b in bad:
            if b["p"] in FUNCTIONAL and b["p"] != "C08" and prog_fields(b["prog"])["section"] == "reload" and b.get("h") == 3:
                b = dict(b, p="C08", why="object loaded from a re-saved image: " + b["why"])
                rel.append(b)
    resolve_crash_sites(rel, work)
    if pid == "C07":
        rel, extra["memalloc_override_only"] = confirm_memalloc(rel, work)
    if os.environ.get("VERIF_DUMP_KNOWN"):
        for b in rel:
            sg = signature(b)
            f = vlib.match_finding(V.findings, pid, sg)
            vlib.dump_known(f["id"] if f else "-", pid, sg)
    seen = {}
    for b in rel:
        sig = signature(b)
        key = json.dumps({k: sig[k] for k in ("kind", "origin", "ev", "why", "site", "op", "p")}, sort_keys=True)
        if key in seen:
            seen[key]["n"] += 1
            continue
        seen[key] = {"n": 1, "b": b, "sig": sig}
    for key, e in seen.items():
        b, sig = e["b"], e["sig"]
        f = vlib.match_finding(V.findings, pid, sig)
        if f is not None:
            c = V.known.get(f["id"], (f, 0))[1]
            V.known[f["id"]] = (f, c + e["n"])
            continue
        tag = hashlib.sha1(key.encode()).hexdigest()[:10]
        d = vlib.replay_dir(pid, tag)
        if "_progfile" in b:
            open(os.path.join(d, "program.txt"), "w").write(extract_program(b["_progfile"], b["prog"]))
            open(os.path.join(d, "trace.ndjson"), "w").write(extract_trace(b["_trace"], b["prog"]))
        json.dump({"record": {k: v for k, v in b.items() if not k.startswith("_")}, "signature": sig, "occurrences": e["n"],
                   "variant": "asan" if b["ev"] == "memerr" or pid == "C07" else "plain", "source_hash": vlib.src_hash()},
                  open(os.path.join(d, "replay.json"), "w"), indent=1)
        V.violations.append(("%s: %s (%s %s, %s) x%d [%s]" % (sig["p"], sig["why"], sig["kind"], sig["origin"], sig["ev"] + ("@" + sig["site"] if sig["site"] else ""), e["n"], b["prog"]), d, sig))
    samples = []
    for p in progs[:: max(1, len(progs) // 3)][:3]:
        samples.append({"program": p.pid, "calls": p.lines[:12] + (["... %d more" % (len(p.lines) - 12)] if len(p.lines) > 12 else [])})
    kinds = sorted({prog_fields(p.pid)["kind"] for p in progs})
    distinct = len({(prog_fields(p.pid)["kind"], prog_fields(p.pid)["par"], prog_fields(p.pid)["set"], prog_fields(p.pid)["section"], prog_fields(p.pid)["origin"]) for p in progs})
    coverage = {"states": design.distinct, "transitions": design.generated, "traces_validated_against_impl": stats["programs"],
                "samples": samples, "events_validated": stats["events"], "evaluations": stats["events"], "distinct_nontrivial": distinct,
                "rule": "one program per (kind, parameters, input set, battery section, built/loaded[load variant]); distinct = distinct such tuples; every logged API call is one validated event",
                "kinds": kinds, "programs_crashed": stats["crashed"], "programs_timed_out": stats["timeout"],
                "programs_skipped_for_budget": stats.get("programs_skipped_for_budget", 0), "time_budget_s": BUDGET[tier],
                "rejections_for_this_property": len(rel), "distinct_rejection_signatures": len(seen),
                "small_scope_model": "CSDMC (%s): invariant %s + action properties Immutable, ImagesAppendOnly, IterShrinks, DeadStaysDead" % ("quick scope" if tier == "quick" else "full scope", INV[pid]),
                "exhaustive": False}
    coverage.update(extra)
    rc = V.finish()
    shutil.rmtree(work, ignore_errors=True)
    vlib.write_evidence(pid, tier, "model_checking", coverage,
                        ["the driver constructs every kind exactly as Build.cpp / the tests do and computes no expected values",
                         "for kinds that need not number by rank the ID table is learned from the first observation and enforced afterwards",
                         "inputs and queries stay inside the validity domain stated by the property",
                         "memory errors are observed through AddressSanitizer reports turned into trace events (C02, C04, C07)"],
                        time.time() - t0, len(V.violations), {"known_findings_hit": sorted(V.known)})
    return rc


def resolve_crash_sites(rel, work):
    """A crash / timeout seen on the plain build carries no call site.  Up to 3 programs per (kind, origin,
    call) are re-run on the ASan build and the first report (class, first repository frame) is attached to
    all crashes of that group, so that rejections are identified by call site (known findings are listed
    per site, not per property)."""
    groups = {}
    for b in rel:
        if b["ev"] in ("crash", "timeout") and not b.get("site") and "_progfile" in b:
            sg = signature(b)
            g = groups.setdefault((sg["kind"], sg["origin"], sg["op"], b["ev"]), {})
            if len(g) < 3:
                g.setdefault(b["prog"], b)
    if not groups:
        return
    exe = vlib.build_harness("driver", DRIVER_SRCS, "asan")
    env = dict(os.environ, ASAN_OPTIONS="halt_on_error=0:detect_leaks=0:allocator_may_return_null=1")
    jobs = []
    for gi, (gk, g) in enumerate(groups.items()):
        pf = os.path.join(work, "crashsites_%d.prog" % gi)
        with open(pf, "w") as fh:
            for prog, b in g.items():
                fh.write(extract_program(b["_progfile"], prog))
        jobs.append((gk, pf, os.path.join(work, "crashsites_%d.ndjson" % gi)))
    with cf.ThreadPoolExecutor(max_workers=12) as ex:
        list(ex.map(lambda j: run_driver(exe, j[1], j[2], env, 6), jobs))
    gsite = {}
    for gk, pf, tr in jobs:
        found = None
        for line in open(tr):
            if line.startswith('{"e":"memerr"') and found is None:
                ev = json.loads(line)
                found = (ev["class"], ev["site"])
            elif line.startswith('{"e":"timeout"') and found is None:
                found = ("timeout", "timeout")
        gsite[gk] = found or ("no-asan-report", "no-asan-report")
    for b in rel:
        if b["ev"] in ("crash", "timeout") and not b.get("site"):
            sg = signature(b)
            c, st = gsite.get((sg["kind"], sg["origin"], sg["op"], b["ev"]), ("no-asan-report", "no-asan-report"))
            b["cls"], b["site"] = c, st


def confirm_timeouts(bad, work, variant, tag):
    """A `timeout` event is reported only if it repeats: the per-program time limit of a campaign is short and
    the machine may be loaded.  Programs that timed out are re-run (batches of 12, 4 drivers in parallel, 30 s
    limit); a program that now finishes has its timeout record replaced by the verdict of the new trace.  Once
    a batch contains a repeated timeout the remaining ones are kept unverified."""
    tprogs = []
    for b in bad:
        if b["ev"] == "timeout" and "_progfile" in b and b["prog"] not in tprogs:
            tprogs.append(b["prog"])
    if not tprogs:
        return bad, 0
    src = {b["prog"]: b for b in bad if b["ev"] == "timeout" and "_progfile" in b}
    exe = vlib.build_harness("driver", DRIVER_SRCS, variant)
    env = dict(os.environ)
    if variant == "asan":
        env["ASAN_OPTIONS"] = "halt_on_error=0:detect_leaks=0:allocator_may_return_null=1:max_allocation_size_mb=4096"
    cleared, extra_bad = set(), []
    for bi in range(0, len(tprogs), 12):
        batch = tprogs[bi:bi + 12]
        jobs = []
        for k in range(4):
            part = batch[k::4]
            if not part:
                continue
            pf = os.path.join(work, "%s_retime_%d_%d.prog" % (tag, bi, k))
            with open(pf, "w") as fh:
                for prog in part:
                    fh.write(extract_program(src[prog]["_progfile"], prog))
            jobs.append((pf, pf.replace(".prog", ".ndjson"), part))
        with cf.ThreadPoolExecutor(max_workers=4) as ex:
            list(ex.map(lambda j: run_driver(exe, j[0], j[1], env, 30), jobs))
        repeated = False
        for pf, tr, part in jobs:
            again, cur = set(), None
            for line in open(tr):
                if line.startswith('{"e":"Reset"'):
                    cur = json.loads(line)["prog"]
                elif line.startswith('{"e":"timeout"'):
                    again.add(cur)
            ok = [p_ for p_ in part if p_ not in again]
            repeated = repeated or bool(again)
            if ok:
                nb, _n = run_tlc_trace(tr)
                for x in nb:
                    if x["prog"] in ok:
                        x["_trace"], x["_progfile"] = tr, pf
                        extra_bad.append(x)
                cleared |= set(ok)
        if repeated:
            break
    kept = [b for b in bad if not (b["prog"] in cleared)]
    return kept + extra_bad, len(cleared)


def confirm_memalloc(rel, work):
    """DESIGN 5/C07: a fault seen only under the MEMALLOC override (the LIBCSD_VERIF hook) is not evidence.
    Each faulting growth program is re-run with the override removed; the rejection is kept only if the
    unmodified constant reproduces a fault at the same call site."""
    sus = {}
    for b in rel:
        if prog_fields(b["prog"])["section"] == "growth" and "_ma" in prog_fields(b["prog"])["par"] and "_progfile" in b:
            sus.setdefault(b["prog"], b)
    if not sus:
        return rel, 0
    exe = vlib.build_harness("driver", DRIVER_SRCS, "asan")
    env = dict(os.environ, ASAN_OPTIONS="halt_on_error=0:detect_leaks=0:allocator_may_return_null=1")
    pf = os.path.join(work, "confirm_ma.prog")
    with open(pf, "w") as fh:
        for prog, b in sus.items():
            txt = extract_program(b["_progfile"], prog)
            fh.write("".join(l for l in txt.splitlines(True) if not l.startswith("MA ")))
    tr = os.path.join(work, "confirm_ma.ndjson")
    run_driver(exe, pf, tr, env, 20)
    still, cur = {}, None
    for line in open(tr):
        if line.startswith('{"e":"Reset"'):
            cur = json.loads(line)["prog"]
        elif line.startswith('{"e":"memerr"'):
            still.setdefault(cur, set()).add(json.loads(line)["site"].split("@")[0])
        elif line.startswith(('{"e":"crash"', '{"e":"timeout"')):
            still.setdefault(cur, set()).add("*")
    def reproduced(b):
        if b["prog"] not in sus:
            return True
        sites = still.get(b["prog"], set())
        return (b.get("site", "").split("@")[0] in sites) if b["ev"] == "memerr" else bool(sites)
    kept = [b for b in rel if reproduced(b)]
    return kept, len(rel) - len(kept)


def cross_process_digests(work, pid):
    """C08: the same (kind, parameters, input) saved in separately started processes (with and without
    malloc perturbation) must give the same image digest.  CSDTrace learns digests per TLC run, i.e.
    per shard; here the Save events of all shards are compared."""
    seen, bad = {}, []
    for f in sorted(os.listdir(work)):
        if not f.endswith(".ndjson"):
            continue
        prog, objs = None, {}
        for line in open(os.path.join(work, f)):
            if line.startswith('{"e":"Reset"'):
                prog, objs = json.loads(line)["prog"], {}
            elif line.startswith('{"e":"Build"'):
                ev = json.loads(line)
                objs[ev["h"]] = ev
            elif line.startswith('{"e":"Save"'):
                ev = json.loads(line)
                o = objs.get(ev["h"])
                if not o:
                    continue
                par = dict(o["par"])
                par.pop("threads", None)
                key = json.dumps([o["kind"], par, o["S"]], sort_keys=True)
                if key in seen and seen[key][0] != ev["dg"]:
                    bad.append({"l": 0, "prog": prog, "focus": "", "p": "C08", "why": "save: image differs between separately started processes (uninitialised bytes or nondeterminism)",
                                "ev": "Save", "kind": o["kind"], "origin": "built", "site": "", "cls": "", "during": "", "_trace": os.path.join(work, f),
                                "_progfile": os.path.join(work, f.replace(".ndjson", ".prog"))})
                seen.setdefault(key, (ev["dg"], prog))
    return bad


def c06_disagreements(bad):
    """C06: an answer of a loaded object that the specification rejects although the built object of the same
    (kind, parameters, input, battery) conforms for that kind of query - the loaded object does not answer
    like the original.  (Kinds that are only usable after load have no built counterpart: every complaint on
    the loaded object counts.)"""
    built = {}
    for b in bad:
        f = prog_fields(b["prog"])
        if f["origin"] == "built":
            built.setdefault((f["kind"], f["par"].split("_L")[0], f["set"], f["section"]), set()).add((b["ev"], b["why"]))
    out = []
    for b in bad:
        f = prog_fields(b["prog"])
        if f["origin"] != "loaded" or b["p"] not in FUNCTIONAL or b["p"] == "C06" or b.get("origin") != "loaded":
            continue
        key = (f["kind"], f["par"].split("_L")[0], f["set"], f["section"])
        if (b["ev"], b["why"]) in built.get(key, set()):
            continue                      # the original object has the same complaint: not a persistence matter
        out.append(dict(b, p="C06", why="loaded object answers differently from the original: " + b["why"]))
    return out


def c12_disagreements(bad, progs):
    """A rejection counts for C12 when parameter vectors of one kind disagree: for the same (kind, input
    set, section, origin) some parameter vectors conform and others do not."""
    grid = {}
    for p in progs:
        f = prog_fields(p.pid)
        grid.setdefault((f["kind"], f["set"], f["section"], f["origin"]), set()).add(f["par"])
    failing = {}
    for b in bad:
        if b["p"] == "HARNESS":
            raise RuntimeError("harness input outside validity domain")
        f = prog_fields(b["prog"])
        failing.setdefault((f["kind"], f["set"], f["section"], f["origin"]), {}).setdefault(f["par"], b)
    out = []
    for key, pars in failing.items():
        if 0 < len(pars) < len(grid.get(key, ())):
            for par, b in pars.items():
                b = dict(b)
                b["p"] = "C12"
                b["detail"] = "%d of %d parameter vectors fail" % (len(pars), len(grid[key]))
                b["why"] = "parameter vectors disagree: " + b["why"]
                out.append(b)
    return out


def replay(pid, path):
    info = json.load(open(os.path.join(path, "replay.json")))
    work = os.path.join(path, "re")
    shutil.rmtree(work, ignore_errors=True)
    os.makedirs(work)
    exe = vlib.build_harness("driver", DRIVER_SRCS, info.get("variant", "plain"))
    env = dict(os.environ)
    if info.get("variant") == "asan":
        env["ASAN_OPTIONS"] = "halt_on_error=0:detect_leaks=0"
    tr = os.path.join(work, "t.ndjson")
    run_driver(exe, os.path.join(path, "program.txt"), tr, env, 20)
    bad, _ = run_tlc_trace(tr)
    rel = [b for b in bad if relevant(pid, b) or pid == "C12"]
    want = info["signature"]
    same = [b for b in rel if signature(b)["why"] == want["why"] or signature(b)["ev"] == want["ev"]]
    if same:
        print("VIOLATION property=%s replay=%s" % (pid, path))
        print("  ", {k: v for k, v in same[0].items() if not k.startswith("_")})
        return 1
    print("replay: the recorded program conforms on the current tree (%d other complaint(s))" % len(rel))
    return 0
