"""Shared runner library: builds from /repo's working tree, TLC driver, evidence and
known-findings handling.  Standard library only (runs under the sandbox python3)."""
import fcntl, hashlib, json, os, re, shutil, subprocess, sys, tempfile, time

ROOT = os.path.dirname(os.path.dirname(os.path.abspath(__file__)))
REPO = os.environ.get("VERIF_REPO", "/repo")
CACHE = os.path.join(ROOT, ".cache")
SPEC = os.path.join(ROOT, "spec")
# development aids for running several changed trees side by side (bin/seeded-run): where evidence / replays go and a
# tag that keeps the scratch directories of concurrent runs apart.  Registered commands set neither.
EVID = os.environ.get("VERIF_EVIDENCE", os.path.join(ROOT, "evidence"))
WORK = os.path.join(CACHE, "work" + os.environ.get("VERIF_RUN_TAG", ""))
NPROC = os.cpu_count() or 4
TLA_CP = "/opt/veriftools/tla/tla2tools.jar:/opt/veriftools/tla/CommunityModules-deps.jar"

GUARD = "LIBCSD_VERIF"
VARIANTS = {
    "plain": "-O1 -g -DLIBCSD_VERIF -Wno-error",
    "asan": "-O1 -g -DLIBCSD_VERIF -Wno-error -fsanitize=address -fno-omit-frame-pointer -fsanitize-recover=address",
    "tsan": "-O1 -g -DLIBCSD_VERIF -Wno-error -fsanitize=thread",
}
SRC_EXT = (".cpp", ".h", ".hpp", ".c", ".cc", ".txt", ".cmake")


def log(*a):
    print(*a, file=sys.stderr, flush=True)


def seed():
    try:
        return int(os.environ.get("VERIF_SEED", "1"))
    except ValueError:
        return 1


# ----------------------------------------------------------------------------- builds
def src_hash():
    """Hash of every source file of /repo's *working tree* (tracked or not), _build excluded."""
    out = subprocess.run(["git", "-C", REPO, "ls-files", "-co", "--exclude-standard"],
                         capture_output=True, text=True, check=True).stdout.split("\n")
    h = hashlib.sha1()
    for f in sorted(out):
        if not f or f.startswith("_build/") or not f.endswith(SRC_EXT):
            continue
        p = os.path.join(REPO, f)
        if not os.path.isfile(p):
            continue
        h.update(f.encode() + b"\0")
        with open(p, "rb") as fh:
            h.update(hashlib.sha1(fh.read()).digest())
    return h.hexdigest()[:16]


class _Lock:
    def __init__(self, name):
        os.makedirs(CACHE, exist_ok=True)
        self.path = os.path.join(CACHE, name + ".lock")

    def __enter__(self):
        self.fh = open(self.path, "w")
        fcntl.flock(self.fh, fcntl.LOCK_EX)
        return self

    def __exit__(self, *a):
        fcntl.flock(self.fh, fcntl.LOCK_UN)
        self.fh.close()


def _run(cmd, **kw):
    r = subprocess.run(cmd, capture_output=True, text=True, **kw)
    if r.returncode != 0:
        log("COMMAND FAILED:", " ".join(cmd) if isinstance(cmd, list) else cmd)
        log(r.stdout[-4000:])
        log(r.stderr[-4000:])
        raise RuntimeError("build step failed")
    return r


def build_lib(variant="plain"):
    """Build libCSD.a + libcds.a from /repo's working tree through the repository's own
    CMakeLists with the variant's flags injected.  Cached by source hash."""
    h = hashlib.sha1((src_hash() + VARIANTS[variant]).encode()).hexdigest()[:16]
    bdir = os.path.join(CACHE, "build" + os.environ.get("VERIF_RUN_TAG", ""), "%s-%s" % (variant, h))
    with _Lock("build-" + variant):
        if os.path.exists(os.path.join(bdir, ".done")):
            return bdir
        # prune stale builds of this variant (disk limit)
        parent = os.path.dirname(bdir)
        os.makedirs(parent, exist_ok=True)
        for d in os.listdir(parent):
            if d.startswith(variant + "-") and d != os.path.basename(bdir):
                shutil.rmtree(os.path.join(parent, d), ignore_errors=True)
        shutil.rmtree(bdir, ignore_errors=True)
        t0 = time.time()
        _run(["cmake", "-G", "Ninja", "-S", REPO, "-B", bdir,
              "-DCMAKE_PROJECT_INCLUDE=" + os.path.join(ROOT, "cmake", "inject.cmake"),
              "-DVERIF_FLAGS=" + VARIANTS[variant], "-DCMAKE_VERBOSE_MAKEFILE=OFF"])
        _run(["cmake", "--build", bdir, "--target", "CSD", "cds", "-j", str(NPROC)])
        open(os.path.join(bdir, ".done"), "w").write("%.1f\n" % (time.time() - t0))
        log("built %s library in %.1fs" % (variant, time.time() - t0))
    return bdir


def build_harness(name, sources, variant="plain", extra=None, link_lib=True):
    """Compile a harness executable against the variant's library build."""
    bdir = build_lib(variant) if link_lib else os.path.join(CACHE, "build" + os.environ.get("VERIF_RUN_TAG", ""), "nolib")
    os.makedirs(bdir, exist_ok=True)
    hh = hashlib.sha1()
    srcs = [os.path.join(ROOT, s) for s in sources]
    deps = list(srcs)
    for s in srcs:
        d = os.path.dirname(s)
        deps += [os.path.join(d, f) for f in os.listdir(d) if f.endswith((".h", ".hpp"))]
    for s in sorted(set(deps)):
        hh.update(open(s, "rb").read())
    hh.update(repr(extra).encode())
    if not link_lib:
        hh.update(src_hash().encode())
    exe = os.path.join(bdir, "h_%s-%s" % (name, hh.hexdigest()[:12]))
    with _Lock("harness-%s-%s" % (variant, name)):
        if os.path.exists(exe):
            return exe
        for f in os.listdir(bdir):
            if f.startswith("h_%s-" % name):
                os.unlink(os.path.join(bdir, f))
        flags = [x for x in VARIANTS[variant].split() if x != "-Wno-error"]
        cmd = ["g++", "-std=c++17"] + flags + ["-I", REPO, "-I", os.path.join(REPO, "libcds", "includes"),
                                               "-I", os.path.join(ROOT, "harness")]
        cmd += srcs + (extra or [])
        if link_lib:
            cmd += [os.path.join(bdir, "libCSD.a"), os.path.join(bdir, "libcds", "libcds.a")]
        cmd += ["-lpthread", "-ldl", "-o", exe + ".tmp"]
        t0 = time.time()
        _run(cmd)
        os.rename(exe + ".tmp", exe)
        log("built harness %s (%s) in %.1fs" % (name, variant, time.time() - t0))
    return exe


# ----------------------------------------------------------------------------- TLC
class TLCResult(dict):
    __getattr__ = dict.get


_cov_re = re.compile(r"^<(\w+) line (\d+), col \d+ to line \d+, col \d+ of module (\w+)>: (\d+):(\d+)", re.M)


def tlc(module, cfg=None, workers=None, simulate=None, depth=None, coverage=False, env=None,
        timeout=900, extra=None, java_opts=None, cwd=None, dfs_queue=False, seed_=None, quiet=True):
    """Run TLC on spec/<module>.tla.  Returns TLCResult with rc, out, generated, distinct,
    depth, violated (name or None), deadlock, liveness, coverage {action: (taken, generated)}.
    rc classes: 0 ok; 10-13 property violation; anything else = model failure."""
    cwd = cwd or SPEC
    cfg = cfg or (module + ".cfg")
    os.makedirs(os.path.join(CACHE, "tlc"), exist_ok=True)
    meta = tempfile.mkdtemp(prefix="m", dir=os.path.join(CACHE, "tlc"))
    jo = ["-XX:+UseParallelGC"] + (java_opts or ["-Xmx8g"])
    if dfs_queue:
        jo.append("-Dtlc2.tool.queue.IStateQueue=StateDeque")
    cmd = ["java"] + jo + ["-cp", TLA_CP, "tlc2.TLC", "-noGenerateSpecTE", "-metadir", meta, "-config", cfg,
                            "-workers", str(workers or 4)]
    if simulate:
        cmd += ["-simulate", "num=%d" % simulate]
    if depth:
        cmd += ["-depth", str(depth)]
    if coverage:
        cmd += ["-coverage", "1"]
    if seed_ is not None:
        cmd += ["-seed", str(seed_)]
    cmd += (extra or []) + [module + ".tla"]
    e = dict(os.environ)
    e.update(env or {})
    t0 = time.time()
    try:
        r = subprocess.run(cmd, cwd=cwd, env=e, capture_output=True, text=True, timeout=timeout)
        rc, out = r.returncode, r.stdout + r.stderr
    except subprocess.TimeoutExpired as ex:
        rc, out = 124, (ex.stdout or b"").decode(errors="replace") if isinstance(ex.stdout, bytes) else (ex.stdout or "")
    finally:
        shutil.rmtree(meta, ignore_errors=True)
    res = TLCResult(rc=rc, out=out, wall=time.time() - t0, cmd=" ".join(cmd))
    m = re.findall(r"(\d+) states generated, (\d+) distinct states found", out)
    if m:
        res["generated"], res["distinct"] = int(m[-1][0]), int(m[-1][1])
    m = re.search(r"depth of the complete state graph search is (\d+)", out)
    if m:
        res["depth"] = int(m.group(1))
    m = re.search(r"Invariant (\w+) is violated", out)
    res["violated"] = m.group(1) if m else None
    if res["violated"] is None:
        m = re.search(r"Action property (\w+) is violated", out)
        res["violated"] = m.group(1) if m else None
    res["deadlock"] = "Deadlock reached" in out
    res["liveness"] = "Temporal properties were violated" in out
    res["postcondition_failed"] = "POSTCONDITION" in out and "violated" in out
    cov = {}
    for a, _l, mod, x, y in _cov_re.findall(out):
        t, g = cov.get(a, (0, 0))
        cov[a] = (t + int(x), g + int(y))
    res["coverage"] = cov
    if not quiet or rc not in (0, 10, 11, 12, 13):
        log("TLC rc=%d: %s" % (rc, res["cmd"]))
        keep = [x for x in out.split("\n") if x.strip() and not x.startswith(("Parsing file", "Semantic processing", "Linting of", "Progress(", "Computed ", "/\\ ", "State "))]
        log("\n".join(keep[-25:])[-2500:])
    return res


def tlaps(module, timeout=600):
    """Prove spec/<module>.tla from scratch with tlapm (a scratch copy, no cached fingerprints).  Returns the number of
    obligations proved; raises when the prover cannot be run or leaves an obligation open."""
    os.makedirs(os.path.join(CACHE, "tlc"), exist_ok=True)
    pd = tempfile.mkdtemp(prefix="tlaps", dir=os.path.join(CACHE, "tlc"))
    try:
        shutil.copy(os.path.join(SPEC, module + ".tla"), pd)
        try:
            pr = subprocess.run(["tlapm", "--cleanfp", module + ".tla"], cwd=pd, capture_output=True, text=True, timeout=timeout)
        except (OSError, subprocess.TimeoutExpired) as ex:
            raise RuntimeError("tlapm could not be run on %s.tla: %s" % (module, ex))
        m = re.search(r"All (\d+) obligations? proved", pr.stdout + pr.stderr)
        if not m:
            raise RuntimeError("%s.tla: TLAPS did not prove every obligation: %s" % (module, (pr.stdout + pr.stderr)[-400:]))
        return int(m.group(1))
    finally:
        shutil.rmtree(pd, ignore_errors=True)


def tlc_ok(res):
    return res.rc == 0


def tlc_model_failure(res):
    return res.rc not in (0, 10, 11, 12, 13)


# ----------------------------------------------------------------------------- findings
def load_findings():
    p = os.path.join(ROOT, "KNOWN_FINDINGS.json")
    if not os.path.exists(p):
        return {"findings": [], "fixed": []}
    return json.load(open(p))


def sig_input(sig):
    """the input a rejection was seen on: kind|parameters|input set|built or loaded"""
    return "|".join(str(sig.get(k, "")) for k in ("kind", "par", "set", "origin"))


def dump_known(fid, prop, sig):
    """development aid (VERIF_DUMP_KNOWN=<file>): which inputs each recorded finding was matched on"""
    path = os.environ.get("VERIF_DUMP_KNOWN")
    if path:
        with open(path, "a") as fh:
            fh.write(json.dumps({"finding": fid, "property": prop, "input": sig_input(sig), "section": sig.get("section", sig.get("sec", "")),
                                 "ev": sig.get("ev"), "why": sig.get("why"), "site": sig.get("site_fn", ""), "op": sig.get("op", ""), "strings": sig.get("strings", "")}) + "\n")


def match_finding(findings, prop, sig):
    """sig: dict describing the failing case.  A finding matches when its property is
    equal and every key of its 'match' dict is present in sig with an equal value (or a
    member of the listed values)."""
    for f in findings["findings"]:
        props = f.get("properties") or [f.get("property")]
        if prop not in props:
            continue
        ok = True
        for k, v in f["match"].items():
            sv = sig.get(k)
            if k.endswith("_contains"):                    # e.g. par_contains: the value must contain one of them
                sv = sig.get(k[:-9]) or ""
                if not any(x in sv for x in (v if isinstance(v, list) else [v])):
                    ok = False
            elif k.endswith("_prefix"):                      # e.g. why_prefix: the value must start with it
                sv = sig.get(k[:-7]) or ""
                if not any(sv.startswith(x) for x in (v if isinstance(v, list) else [v])):
                    ok = False
            elif isinstance(v, list):
                if sv not in v:
                    ok = False
            elif sv != v:
                ok = False
        if ok:
            return f
    return None


# ----------------------------------------------------------------------------- evidence
def write_evidence(pid, tier, level, coverage, assumptions, wall_s, violations, extra=None):
    ev = {"property_id": pid, "tier": tier, "seed": seed(), "level": level, "coverage": coverage,
          "assumptions": assumptions, "wall_s": round(wall_s, 2), "violations": violations}
    if extra:
        ev.update(extra)
    os.makedirs(EVID, exist_ok=True)
    p = os.path.join(EVID, pid + ".json")
    with open(p + ".tmp", "w") as fh:
        json.dump(ev, fh, indent=1, sort_keys=True)
        fh.write("\n")
    os.rename(p + ".tmp", p)
    return p


def replay_dir(pid, tag):
    d = os.path.join(EVID, "replay", pid, tag)
    os.makedirs(d, exist_ok=True)
    return d


class Verdict:
    """Collects violations / known findings of one check run and prints the protocol lines."""

    def __init__(self, pid):
        self.pid = pid
        self.violations = []   # (what, replay path)
        self.known = {}        # finding id -> (finding, count)
        self.findings = load_findings()

    def reject(self, sig, what, replay):
        f = match_finding(self.findings, self.pid, sig)
        if f is not None:
            c = self.known.get(f["id"], (f, 0))[1]
            self.known[f["id"]] = (f, c + 1)
            return False
        self.violations.append((what, replay, sig))
        return True

    def finish(self):
        for fid, (f, c) in sorted(self.known.items()):
            print("KNOWN-FINDING: property=%s %s [%s, %d occurrence(s) this run]" % (self.pid, f["what"], fid, c))
        seen = set()
        for what, replay, sig in self.violations:
            if replay in seen:
                continue
            seen.add(replay)
            if len(seen) <= 12:
                print("VIOLATION property=%s replay=%s" % (self.pid, replay))
                log("  ->", what[:600])
        if len(seen) > 12:
            log("  (%d further violating cases not listed)" % (len(seen) - 12))
        sys.stdout.flush()
        return 1 if self.violations else 0
