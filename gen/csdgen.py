"""Program generator for the sequential API driver (harness/driver).

A program is a list of driver lines (see driver.cpp).  Programs are short and numerous so that a
crash loses little.  Everything random derives from the seed.  Inputs are always inside the
validity domain of the properties: sorted (unsigned), duplicate-free, non-empty strings over
0x02..0xFE, n >= 1; queries are non-empty strings over the same range."""
import itertools, random

KINDS = ["PFC", "RPFC", "HTFC", "HHTFC", "RPHTFC", "RPDAC", "HASHHF", "HASHRPF", "HASHUFFDAC", "HASHRPDAC",
         "BLOCKS", "FMINDEX", "XBW"]
FC = ["PFC", "RPFC", "HTFC", "HHTFC", "RPHTFC"]
ORDERED = FC + ["RPDAC", "FMINDEX"]
HASH = ["HASHHF", "HASHRPF", "HASHUFFDAC", "HASHRPDAC"]
PREFIX = ORDERED + ["XBW"]
RANK = ORDERED + ["XBW"]
OPT = ["HASHHF", "HASHRPF"]
LEGAL = bytes(range(2, 255))


def P(bucket=2, overhead=25, sparse=0, bparam=4, bwt=0, cut=1 << 27, threads=1):
    return dict(bucket=bucket, overhead=overhead, sparse=sparse, bparam=bparam, bwt=bwt, cut=cut, threads=threads)


def param_grid(kind, S, rich):
    tb = sum(len(s) + 1 for s in S)
    if kind in FC:
        bs = [2, 3, 4, 8] if rich else [2, 3]
        if len(S) >= 100:
            bs = [16] + bs          # realistic bucket sizes on the larger inputs
        return [P(bucket=b) for b in bs]
    if kind in HASH:
        return [P(overhead=o) for o in ([0, 25, 100] if rich else [25])]
    if kind == "BLOCKS":
        cuts = sorted({1, max(1, tb // 2), tb + 10}) if rich else sorted({max(1, tb // 2), tb + 10})
        ths = [1, 2, 3] if rich else [2]
        return [P(overhead=25, cut=c, threads=t) for c in cuts for t in ths]
    if kind == "FMINDEX":
        if rich:
            return [P(sparse=s, bparam=b, bwt=w) for (s, b) in ((0, 4), (0, 20), (1, 16), (1, 32)) for w in (0, 1, 2, 4)]
        return [P(sparse=0, bparam=4, bwt=0), P(sparse=0, bparam=20, bwt=4), P(sparse=1, bparam=16, bwt=2)]
    return [P()]


def substr_capable(kind, par):
    return kind == "XBW" or (kind == "FMINDEX" and par["bwt"] > 0)


def hx(s):
    return s.hex() if s else "-"


def build_line(h, kind, par, S):
    return "B %d %s %d %d %d %d %d %d %d %d %s" % (h, kind, par["bucket"], par["overhead"], par["sparse"], par["bparam"], par["bwt"],
                                                    par["cut"], par["threads"], len(S), " ".join(hx(s) for s in S))


# ------------------------------------------------------------------------------ inputs
def small_universe(alpha=(0x61, 0x62), maxlen=3):
    out = []
    for L in range(1, maxlen + 1):
        for t in itertools.product(alpha, repeat=L):
            out.append(bytes(t))
    return sorted(out)


def small_sets(maxn, alpha=(0x61, 0x62), maxlen=3):
    U = small_universe(alpha, maxlen)
    for n in range(1, maxn + 1):
        for c in itertools.combinations(U, n):
            yield list(c)


def rnd_set(rng, n, lo, hi, pre=b"", alpha=LEGAL):
    s = set()
    while len(s) < n:
        s.add(pre + bytes(rng.choice(alpha) for _ in range(rng.randint(lo, hi))))
    return sorted(s)


def shape_sets(rng, thorough):
    """name -> input set: the shapes the properties name explicitly"""
    sh = {}
    sh["single1"] = [b"a"]
    sh["single_long"] = [b"q" * 200]
    sh["two"] = [b"a", b"b"]
    sh["lastlen1"] = [b"aa", b"ab", b"b"]
    sh["prefixchain"] = [b"a", b"aa", b"aaa", b"aaaa", b"aaab", b"ab", b"b"]
    sh["hi_lo_bytes"] = sorted([b"\x02", b"\x02\xfe", b"\x7f", b"\x80", b"\xfe", b"\xfe\x02", b"a\x80", b"a\x7f"])
    sh["pre130"] = rnd_set(rng, 12, 1, 5, b"p" * 130, b"abc")
    sh["pre128diff"] = sorted([b"z" * 128 + b"a", b"z" * 128 + b"b", b"z" * 129, b"z" * 127])
    sh["rand20"] = rnd_set(rng, 20, 1, 10)
    sh["bucketmult8"] = rnd_set(rng, 8, 1, 6, b"", b"abcd")
    sh["bucketmult9"] = rnd_set(rng, 9, 1, 6, b"", b"abcd")
    sh["bucketmult7"] = rnd_set(rng, 7, 1, 6, b"", b"abcd")
    sh["repeats"] = sorted([b"abababab", b"abab", b"bababa", b"aaaaaaaa", b"aaaa", b"abcabcabc", b"bcbcbc"])
    sh["skewed"] = rnd_set(rng, 25, 2, 12, b"", b"aaaaaaaaaaaaaaaabbbbc")
    # dense: consecutive strings differ in one character (decimal numerals), enough of them for big buckets
    sh["numerals600"] = sorted(str(i).encode() for i in range(600))
    # a text larger than 64 KB: offsets need more than 16 bits, every constructor buffer is reallocated
    sh["big80k"] = rnd_set(rng, 5200, 4, 24, b"", b"abcdefghijklmnop")
    # word boundaries of the bitmaps: a single string of 29 bytes gives an XBW of exactly 32 nodes and an FM-index text of 32
    # symbols (the neighbours 28 / 30 sit one bit either side); two 30-byte strings give 64 nodes
    for L in (28, 29, 30):
        sh["line%d" % L] = [b"k" * L]
    sh["pair60"] = [b"a" * 30, b"b" * 30]
    # lengths at the byte boundary (a length kept in 8 bits wraps at 255 / 256)
    sh["len255"] = sorted([b"m" * 254, b"m" * 255, b"m" * 256, b"m" * 300, b"mm", b"n"])
    # element counts at the word boundaries of per-element bitmaps (DAC levels, hash occupancy, bucket tables)
    two = sorted(bytes([a, b]) for a in b"abcdefghi" for b in b"abcdefgh")
    for n in (31, 32, 33, 63, 64, 65):
        sh["count%d" % n] = two[:n]
    if thorough:
        sh["rand200"] = rnd_set(rng, 200, 1, 25)
        sh["long400"] = rnd_set(rng, 15, 300, 400, b"", b"xyz")
        sh["pre260"] = rnd_set(rng, 20, 1, 8, b"k" * 260, b"ab")
        sh["rand1000"] = rnd_set(rng, 1000, 2, 12, b"", b"abcdefgh")
        sh["fullbytes"] = rnd_set(rng, 120, 1, 6)
    return sh


def geometric_set():
    """geometric byte frequencies: byte k occurs about 2^(17-k) times, so the rarest bytes get codewords longer than the
    16-bit chunk of the decoding table; strings start with every byte (rare bytes at bit offset 0), rare bytes follow
    frequent ones, and some strings are an existing string plus one rare byte.  Every string is shorter than 128 bytes
    (the long-string defects of the Hu-Tucker kinds are recorded findings and must not mask what this text is for)."""
    geo = set()
    for k, total in enumerate([130000, 65000, 32000, 16000, 8000, 4000, 2000, 1000, 500, 250, 120, 60, 30, 15, 8, 4, 2, 1]):
        ch = bytes([65 + k])
        used = 0
        for j in range(0, 21):
            for i in range(1, 101):
                if used + i > total:
                    break
                x = ch * i + (b"B" + b"A" * j if k == 0 and j else b"A" * j)
                if x not in geo:
                    geo.add(x)
                    used += i + (j if k == 0 else 0)
            if used + 1 > total:
                break
    rare = [bytes([65 + k]) for k in range(10, 18)]
    for r in rare:
        geo.add(r + b"A")
        geo.add(b"A" + r)
        geo.add(b"AB" + r + b"C")
        geo.add(r + r)
        for base in (b"A" * 7, b"B" * 5, b"AB", b"C" * 30):
            geo.add(base + r)
    return sorted(geo)


# ------------------------------------------------------------------------------ capacity witness
# Input that puts `used` exactly where Capacity.tla's counterexample needs it with the library's own
# constant (MEMALLOC * bucketsize): the plain front-coding layout arithmetic is simulated to choose string
# lengths (this is input generation; no expected answers are computed).
def _lcp(a,b):
    n=0
    while n<len(a) and n<len(b) and a[n]==b[n]: n+=1
    return n
def _vb(v): return 1 if v<128 else 2
def _simulate(S,R,bucket):
    used=0; prev=None; worst=None
    for i,s in enumerate(S):
        L=len(s)
        while used+2*L>R: R*=2
        if i%bucket==0: w=L+1
        else:
            l=_lcp(prev,s); w=_vb(l)+L-l+1
        used+=w
        if used>R: return ("overflow",i,used,R)
        prev=s
    return ("ok",used,R)
def _enc(i):
    d="abcdefghijklmnopqrst"
    return bytes([ord(d[(i//400)%20]),ord(d[(i//20)%20]),ord(d[i%20])])
def pfc_capacity_witness(R=65536,bucket=2):
    # body: pairs of 12-byte strings; tail: 2-byte strings "xa".."xz" (3 bytes each), then "y" (header) and "z" (internal)
    for pad in range(0,40):
        for ntail in range(2,24):
            S=[];i=0;used=0;prev=None
            def add(s):
                nonlocal used,prev
                k=len(S); L=len(s)
                if used+2*L>R: return False
                w=L+1 if k%bucket==0 else _vb(_lcp(prev,s))+L-_lcp(prev,s)+1
                used+=w; S.append(s); prev=s; return True
            ok=True
            first=True
            while R-used>3*ntail+4+30:
                L=12+(pad if first else 0); first=False
                if not add(_enc(i)+b"a"*(L-3)): ok=False;break
                i+=1
            if not ok: continue
            # fill with 12-len until close
            while R-used-(3*ntail+4)>=13 and add(_enc(i)+b"a"*9): i+=1
            for t in range(ntail):
                if not add(b"x"+bytes([97+t])): ok=False;break
            if not ok: continue
            if used!=R-4 or len(S)%bucket!=0: continue
            if not add(b"y"): continue
            S.append(b"z")
            return S
    return None


# ------------------------------------------------------------------------------ query material
def absent_queries(S, rng, limit=None):
    mem = set(S)
    out = []
    seen = set()

    def add(q):
        if q and q not in mem and all(2 <= c <= 254 for c in q) and q not in seen:
            seen.add(q)
            out.append(q)
    used = set(b for s in S for b in s)
    absent_bytes = [b for b in (0x02, 0xFE, 0x7A, 0x03) if b not in used]
    for s in S:
        for k in range(1, len(s)):
            add(s[:k])
        add(s + b"a")
        add(s + bytes([0xFE]))
        add(s + bytes([0x02]))
        if s[-1] > 2:
            add(s[:-1] + bytes([s[-1] - 1]))
        if s[-1] < 254:
            add(s[:-1] + bytes([s[-1] + 1]))
        for ab in absent_bytes[:2]:
            add(s[:-1] + bytes([ab]))
            add(bytes([ab]) + s)
    first, last = S[0], S[-1]
    add(bytes([2]))
    add(bytes([first[0] - 1]) if first[0] > 2 else b"")
    add(bytes([254]) * (len(last) + 1))
    add(last + last)
    add(bytes([0xFE, 0xFE, 0xFE]))
    if limit and len(out) > limit:
        head = min(6, limit)
        out = out[:head] + rng.sample(out[head:], limit - head)
    return out


def bad_ids(n):
    return sorted({0, n + 1, 2 * n, 2 * n + 7, 1 << 31, (1 << 32) - 1, 1 << 32, (1 << 32) + 1, (1 << 64) - 1})


def prefix_patterns(S, rng, limit=None):
    out = []
    seen = set()

    def add(q):
        if q and all(2 <= c <= 254 for c in q) and q not in seen:
            seen.add(q)
            out.append(q)
    for s in S:
        for k in range(1, len(s) + 1):
            add(s[:k])
        add(s + b"a")
        add(s + bytes([0xFE]))
    add(bytes([2]))
    add(bytes([0xFE]))
    add(S[-1] + S[-1])
    add(bytes([S[0][0]]))
    add(bytes([S[-1][0]]))
    add(b"zzzzzzzzzzzzzzzzzzzz")
    if limit and len(out) > limit:
        head = min(4, limit)
        out = out[:head] + rng.sample(out[head:], limit - head)
    return out


def substr_patterns(S, rng, limit=None):
    out = []
    seen = set()

    def add(q):
        if q and all(2 <= c <= 254 for c in q) and q not in seen:
            seen.add(q)
            out.append(q)
    for s in S:
        add(s)
        add(s[:1])
        add(s[-1:])
        for _ in range(3):
            i = rng.randrange(len(s))
            j = rng.randrange(i, len(s)) + 1
            add(s[i:j])
        add(s[len(s) // 2:])
        add(s + b"a")
    add(bytes([0xFE, 0x02]))
    add(b"ab")
    add(b"a")
    add(b"zzzzzz")
    if limit and len(out) > limit:
        head = min(4, limit)
        out = out[:head] + rng.sample(out[head:], limit - head)
    return out


# ------------------------------------------------------------------------------ battery sections
def sec_meta(h):
    return ["N %d" % h, "M %d" % h]


def sec_members(h, S, rng=None, limit=None):
    idx = list(range(1, len(S) + 1))
    if limit and len(S) > limit:
        idx = sorted(set([1, 2, len(S) - 1, len(S)] + rng.sample(idx, limit)))
        idx = [i for i in idx if 1 <= i <= len(S)]
    return ["E %d %d" % (h, i) for i in idx] + ["L %d %s" % (h, hx(S[i - 1])) for i in idx]


def sec_absent(h, S, rng, limit=None):
    return ["L %d %s" % (h, hx(q)) for q in absent_queries(S, rng, limit)] + ["E %d %d" % (h, i) for i in bad_ids(len(S))]


def sec_rank(h, S, rng=None, limit=None):
    idx = list(range(1, len(S) + 1))
    if limit and len(S) > limit:
        idx = sorted(set([1, len(S)] + rng.sample(idx, limit)))
    return ["LR %d %d" % (h, k) for k in idx] + ["ER %d %d" % (h, k) for k in idx]


class Its:
    def __init__(self):
        self.n = 0

    def new(self):
        self.n += 1
        return self.n


def sec_prefix(h, S, its, rng, limit=None, ids=True, strs=True):
    out = []
    cap = len(S) + 2
    for p in prefix_patterns(S, rng, limit):
        if ids:
            it = its.new()
            out += ["LP %d %d %s" % (h, it, hx(p)), "ID %d %d" % (it, cap), "CI %d" % it]
        if strs:
            it = its.new()
            out += ["EP %d %d %s" % (h, it, hx(p)), "SD %d %d" % (it, cap), "CI %d" % it]
    return out


def sec_substr(h, S, its, rng, limit=None, minlen=1):
    out = []
    cap = len(S) + 2
    for p in substr_patterns(S, rng, limit):
        if len(p) < minlen:
            continue
        it = its.new()
        out += ["LS %d %d %s" % (h, it, hx(p)), "ID %d %d" % (it, cap), "CI %d" % it]
        it = its.new()
        out += ["ES %d %d %s" % (h, it, hx(p)), "SD %d %d" % (it, cap), "CI %d" % it]
    return out


def sec_table(h, S, its):
    it = its.new()
    return ["ET %d %d" % (h, it), "SD %d %d" % (it, len(S) + 2), "CI %d" % it]


def sec_unsupported(h, kind, par, S, its):
    """every operation the kind does not provide, with well-formed arguments"""
    out = []
    # well-formed patterns: a member, one byte, an absent pair, a pattern shorter than the first member's first byte
    # (sorts before every member) and one much longer than the longest member
    pats = [S[0], S[-1][:1], b"zz", bytes([max(2, S[0][0] - 1)]), b"q" * (max(len(x) for x in S) + 40)]
    if kind not in PREFIX:
        for p in pats:
            it = its.new()
            out += ["LP %d %d %s" % (h, it, hx(p)), "ID %d 3" % it, "CI %d" % it]
            it = its.new()
            out += ["EP %d %d %s" % (h, it, hx(p)), "SD %d 3" % it, "CI %d" % it]
    if not substr_capable(kind, par):
        for p in pats:
            it = its.new()
            out += ["LS %d %d %s" % (h, it, hx(p)), "ID %d 3" % it, "CI %d" % it]
            it = its.new()
            out += ["ES %d %d %s" % (h, it, hx(p)), "SD %d 3" % it, "CI %d" % it]
    if kind not in RANK:
        out += ["LR %d 1" % h, "ER %d 1" % h, "LR %d %d" % (h, len(S)), "ER %d %d" % (h, len(S))]
    if kind == "XBW":
        it = its.new()
        out += ["ET %d %d" % (h, it), "SD %d 3" % it, "CI %d" % it]
    return out


def load_variants(kind):
    """(via, opt) pairs by which an image of this kind can be loaded"""
    v = []
    if kind != "BLOCKS":
        v.append(("LG", 1))
    v.append(("LK", 1))
    if kind in OPT:
        v += [("LG", 2), ("LG", 3), ("LK", 2), ("LK", 3)]
    return v


def load_line(via, kind, st, h, opt):
    return "LG %d %d %d" % (st, h, opt) if via == "LG" else "LK %s %d %d %d" % (kind, st, h, opt)


# kinds whose built object can only be saved (none since the XBW constructor was repaired; the mechanism stays)
SAVE_ONLY_WHEN_BUILT = set()      # was {"XBW"} until the constructor was repaired (fix: in /repo) to build its index


class Prog:
    def __init__(self, pid):
        self.pid = pid
        self.lines = []

    def text(self):
        return "P %s\n%s\n" % (self.pid, "\n".join(self.lines))
